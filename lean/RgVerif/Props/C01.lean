import RgVerif.Lemmas.SearcherC01
/-
C01 — a line is reported iff the pattern matches that line: **searcher-level half** (line-by-line search of
`core.rs` / `lines.rs`: slow path, fast path, inverted fast path).  The matcher is an arbitrary `MatcherI`;
what the regex matcher must satisfy for the fast path is the explicit contract `LineSafe`
(`Lemmas/SearcherFind.lean`; discharging it for `RegexMatcher` is the matcher-level half, C11).
-/
namespace RgVerif.Props.C01
open RgVerif RgVerif.Matcher RgVerif.Lines RgVerif.Searcher RgVerif.GrepSpec

/-- the lines of `inp` selected by `sel`, in order, each with its starting offset -/
def selectedLines (t : Nat) (sel : Bytes → Bool) (inp : Bytes) : List (Nat × Bytes) :=
  let sl : List SLine := (splitLines t inp).map fun l => (l, sel l)
  (List.range sl.length).flatMap fun i => if selAt sl i then [(offsetAt sl i, bytesAt sl i)] else []

/-- what the code asks the matcher: the line with the *full* terminator cut off, flipped by inversion -/
abbrev codeSel (cfg : Config) (m : MatcherI) : Bytes → Bool := lineSel cfg m

/-- what the property asks: the line's content (terminator byte, and under CRLF a preceding `\r`, removed) -/
def propSel (cfg : Config) (m : MatcherI) (line : Bytes) : Bool :=
  m.isMatch (content cfg.lineTerm line) != cfg.invertMatch

theorem reported_of_agrees {cfg : Config} {m : MatcherI} {inp : Bytes} (hs : cfg.stopOnNonmatch = false)
    (h : (sliceByLine cfg m allCont inp).events = grepSpec cfg (lineSel cfg m) inp) :
    reported (sliceByLine cfg m allCont inp).events = selectedLines cfg.lineTerm.asByte (codeSel cfg m) inp := by
  rw [h]
  unfold grepSpec
  rw [reported_spec]
  simp only [effective, hs, Bool.false_eq_true, if_false]
  rfl

/-- **slow path**: exactly the lines the matcher selects are reported, for every matcher, input, context
setting, inversion, passthru and terminator. No contract on the matcher is needed. -/
theorem C01_slow (cfg : Config) (m : MatcherI) (inp : Bytes) (hbin : cfg.binary = .none)
    (hs : cfg.stopOnNonmatch = false) (hslow : isLineByLineFast cfg m (Core.new cfg true) = false) :
    reported (sliceByLine cfg m allCont inp).events = selectedLines cfg.lineTerm.asByte (codeSel cfg m) inp :=
  reported_of_agrees hs (sliceByLine_slow cfg m inp hbin hslow).1

/-- **fast path** (plain and inverted): the same lines are reported, provided the matcher is line safe on
this input — the optimisation neither adds nor drops a line. -/
theorem C01_fast (cfg : Config) (m : MatcherI) (inp : Bytes) (hbin : cfg.binary = .none)
    (hs : cfg.stopOnNonmatch = false) (hfast : isLineByLineFast cfg m (Core.new cfg true) = true)
    (hsafe : LineSafe cfg m inp (linesOf cfg m inp)) :
    reported (sliceByLine cfg m allCont inp).events = selectedLines cfg.lineTerm.asByte (codeSel cfg m) inp := by
  have L : Layout cfg.lineTerm.asByte inp (linesOf cfg m inp) := layout_splitLines _ inp (lineSel cfg m)
  have hsel : ∀ j, j < (linesOf cfg m inp).length →
      selAt (linesOf cfg m inp) j = lineSel cfg m (bytesAt (linesOf cfg m inp) j) :=
    selAt_of_forall (fun x hx => by
      simp only [linesOf, List.mem_map] at hx
      obtain ⟨l, _, rfl⟩ := hx; rfl)
  have hfind := findSpec_of_lineSafe L (linesOf_length cfg m inp) rfl hsel hsafe
  exact reported_of_agrees hs (sliceByLine_fast cfg m inp hbin hfast hs hfind).1

/-- **fast path with a per-run certificate**: `lineSafeCheck` is executable; the correspondence harness runs
it on the real matcher's answers for every generated case (violations of it are findings F1 / F2). -/
theorem C01_fast_cert (cfg : Config) (m : MatcherI) (inp : Bytes) (hbin : cfg.binary = .none)
    (hs : cfg.stopOnNonmatch = false) (hfast : isLineByLineFast cfg m (Core.new cfg true) = true)
    (hcert : lineSafeCheck cfg m inp (linesOf cfg m inp) = true) :
    reported (sliceByLine cfg m allCont inp).events = selectedLines cfg.lineTerm.asByte (codeSel cfg m) inp :=
  C01_fast cfg m inp hbin hs hfast (lineSafeCheck_sound hcert)

/-! ### The property's own notion of content

Since the repair of F3 (`lines::without_terminator` under CRLF, /repo cc9628f) what the code hands to the
matcher is exactly the property's content of the line, for every terminator. -/

theorem codeSel_eq_propSel (cfg : Config) (m : MatcherI) : codeSel cfg m = propSel cfg m := by
  funext l
  simp only [codeSel, lineSel, propSel, MatcherI.isMatch, MatcherI.shortestMatch]
  rw [withoutTerminator_eq_content]

/-- **slow path, in the property's words**: a line is reported iff the matcher matches its content
(terminator byte removed, and under CRLF a `\r` before it), flipped by inversion. -/
theorem C01_content_slow (cfg : Config) (m : MatcherI) (inp : Bytes) (hbin : cfg.binary = .none)
    (hs : cfg.stopOnNonmatch = false) (hslow : isLineByLineFast cfg m (Core.new cfg true) = false) :
    reported (sliceByLine cfg m allCont inp).events = selectedLines cfg.lineTerm.asByte (propSel cfg m) inp := by
  rw [C01_slow cfg m inp hbin hs hslow, codeSel_eq_propSel]

/-- **fast path, in the property's words**, under the per-run certificate -/
theorem C01_content_fast (cfg : Config) (m : MatcherI) (inp : Bytes) (hbin : cfg.binary = .none)
    (hs : cfg.stopOnNonmatch = false) (hfast : isLineByLineFast cfg m (Core.new cfg true) = true)
    (hcert : lineSafeCheck cfg m inp (linesOf cfg m inp) = true) :
    reported (sliceByLine cfg m allCont inp).events = selectedLines cfg.lineTerm.asByte (propSel cfg m) inp := by
  rw [C01_fast_cert cfg m inp hbin hs hfast hcert, codeSel_eq_propSel]

/-! ### Non-vacuity -/

def mHasA : MatcherI := MatcherI.ofFindAt fun h at_ => if 97 ∈ h.drop at_ then some ⟨at_, h.length⟩ else none
def cfgCrlf : Config := { lineTerm := .crlf }

example : isLineByLineFast cfgCrlf mHasA (Core.new cfgCrlf true) = false := by decide

/-- CRLF mode, `ab\r\nb\na`: lines 1 and 3 are reported, with their offsets -/
example : reported (sliceByLine cfgCrlf mHasA allCont [97, 98, 13, 10, 98, 10, 97]).events
    = [(0, [97, 98, 13, 10]), (6, [97])] := by decide

end RgVerif.Props.C01
