import RgVerif.Lemmas.SearcherC01
import RgVerif.Props.C01Regex
import RgVerif.Lemmas.SearcherC01Bridge
/-
C01 — a line is reported iff the pattern matches that line: **searcher-level half** (line-by-line search of
`core.rs` / `lines.rs`: slow path, fast path, inverted fast path).  The matcher is an arbitrary `MatcherI`;
what the regex matcher must satisfy for the fast path is the explicit contract `LineSafe`
(`Lemmas/SearcherFind.lean`; discharging it for `RegexMatcher` is the matcher-level half, C11).
-/
namespace RgVerif.Props.C01
open RgVerif RgVerif.Matcher RgVerif.Lines RgVerif.Searcher RgVerif.GrepSpec

/-- the lines of `inp` selected by `sel`, in order, each with its starting offset -/
def selectedLines (t : Nat) (sel : Bytes → Bool) (inp : Bytes) : List (Nat × Bytes) :=
  let sl : List SLine := (splitLines t inp).map fun l => (l, sel l)
  (List.range sl.length).flatMap fun i => if selAt sl i then [(offsetAt sl i, bytesAt sl i)] else []

/-- what the code asks the matcher: the line with the *full* terminator cut off, flipped by inversion -/
abbrev codeSel (cfg : Config) (m : MatcherI) : Bytes → Bool := lineSel cfg m

/-- what the property asks: the line's content (terminator byte, and under CRLF a preceding `\r`, removed) -/
def propSel (cfg : Config) (m : MatcherI) (line : Bytes) : Bool :=
  m.isMatch (content cfg.lineTerm line) != cfg.invertMatch

theorem reported_of_agrees {cfg : Config} {m : MatcherI} {inp : Bytes} (hs : cfg.stopOnNonmatch = false)
    (h : (sliceByLine cfg m allCont inp).events = grepSpec cfg (lineSel cfg m) inp) :
    reported (sliceByLine cfg m allCont inp).events = selectedLines cfg.lineTerm.asByte (codeSel cfg m) inp := by
  rw [h]
  unfold grepSpec
  rw [reported_spec]
  simp only [effective, hs, Bool.false_eq_true, if_false]
  rfl

/-- **slow path**: exactly the lines the matcher selects are reported, for every matcher, input, context
setting, inversion, passthru and terminator. No contract on the matcher is needed. -/
theorem C01_slow (cfg : Config) (m : MatcherI) (inp : Bytes) (hbin : cfg.binary = .none)
    (hs : cfg.stopOnNonmatch = false) (hslow : isLineByLineFast cfg m (Core.new cfg true) = false) :
    reported (sliceByLine cfg m allCont inp).events = selectedLines cfg.lineTerm.asByte (codeSel cfg m) inp :=
  reported_of_agrees hs (sliceByLine_slow cfg m inp hbin hslow).1

/-- **fast path** (plain and inverted): the same lines are reported, provided the matcher is line safe on
this input — the optimisation neither adds nor drops a line. -/
theorem C01_fast (cfg : Config) (m : MatcherI) (inp : Bytes) (hbin : cfg.binary = .none)
    (hs : cfg.stopOnNonmatch = false) (hfast : isLineByLineFast cfg m (Core.new cfg true) = true)
    (hsafe : LineSafe cfg m inp (linesOf cfg m inp)) :
    reported (sliceByLine cfg m allCont inp).events = selectedLines cfg.lineTerm.asByte (codeSel cfg m) inp := by
  have L : Layout cfg.lineTerm.asByte inp (linesOf cfg m inp) := layout_splitLines _ inp (lineSel cfg m)
  have hsel : ∀ j, j < (linesOf cfg m inp).length →
      selAt (linesOf cfg m inp) j = lineSel cfg m (bytesAt (linesOf cfg m inp) j) :=
    selAt_of_forall (fun x hx => by
      simp only [linesOf, List.mem_map] at hx
      obtain ⟨l, _, rfl⟩ := hx; rfl)
  have hfind := findSpec_of_lineSafe L (linesOf_length cfg m inp) rfl hsel hsafe
  exact reported_of_agrees hs (sliceByLine_fast cfg m inp hbin hfast hs hfind).1

/-- **fast path with a per-run certificate**: `lineSafeCheck` is executable; the correspondence harness runs
it on the real matcher's answers for every generated case (violations of it are findings F1 / F2). -/
theorem C01_fast_cert (cfg : Config) (m : MatcherI) (inp : Bytes) (hbin : cfg.binary = .none)
    (hs : cfg.stopOnNonmatch = false) (hfast : isLineByLineFast cfg m (Core.new cfg true) = true)
    (hcert : lineSafeCheck cfg m inp (linesOf cfg m inp) = true) :
    reported (sliceByLine cfg m allCont inp).events = selectedLines cfg.lineTerm.asByte (codeSel cfg m) inp :=
  C01_fast cfg m inp hbin hs hfast (lineSafeCheck_sound hcert)

/-- **fast path, candidates only** (what `verify_on_line` of /repo 4165f41 gives: the matcher never answers
`Confirmed` on this buffer): the searcher judges every candidate line on its own, exactly as the slow path does, so
nothing about look-arounds seeing beyond the line is needed any more — only that the candidate finder has no false
negatives (when it says "nothing" no line from there on matches; a candidate points into a line with no matching line
before it, or behind the final terminator when no line matches). -/
theorem C01_fast_verified (cfg : Config) (m : MatcherI) (inp : Bytes) (hbin : cfg.binary = .none)
    (hs : cfg.stopOnNonmatch = false) (hfast : isLineByLineFast cfg m (Core.new cfg true) = true)
    (hcand : ∀ hay i, m.findCandidateLine hay ≠ some (.confirmed i))
    (hnone : ∀ p, p < (linesOf cfg m inp).length →
      m.findCandidateLine (inp.drop (offsetAt (linesOf cfg m inp) p)) = none →
      ∀ j, p ≤ j → j < (linesOf cfg m inp).length → pmLine cfg m (linesOf cfg m inp) j = false)
    (hnofn : ∀ p i, p < (linesOf cfg m inp).length →
      m.findCandidateLine (inp.drop (offsetAt (linesOf cfg m inp) p)) = some (.candidate i) →
      (∃ j, p ≤ j ∧ InLine cfg.lineTerm.asByte (linesOf cfg m inp) j (offsetAt (linesOf cfg m inp) p + i) ∧
        ∀ j', p ≤ j' → j' < j → pmLine cfg m (linesOf cfg m inp) j' = false) ∨
      (offsetAt (linesOf cfg m inp) p + i = inp.length ∧
        Term cfg.lineTerm.asByte (bytesAt (linesOf cfg m inp) ((linesOf cfg m inp).length - 1)) ∧
        ∀ j, p ≤ j → j < (linesOf cfg m inp).length → pmLine cfg m (linesOf cfg m inp) j = false)) :
    reported (sliceByLine cfg m allCont inp).events = selectedLines cfg.lineTerm.asByte (codeSel cfg m) inp :=
  C01_fast cfg m inp hbin hs hfast
    ⟨hnone, fun _ i _ h => absurd h (hcand _ i), hnofn⟩

/-! ### The property's own notion of content

Since the repair of F3 (`lines::without_terminator` under CRLF, /repo cc9628f) what the code hands to the
matcher is exactly the property's content of the line, for every terminator. -/

theorem codeSel_eq_propSel (cfg : Config) (m : MatcherI) : codeSel cfg m = propSel cfg m := by
  funext l
  simp only [codeSel, lineSel, propSel, MatcherI.isMatch, MatcherI.shortestMatch]
  rw [withoutTerminator_eq_content]

/-- **slow path, in the property's words**: a line is reported iff the matcher matches its content
(terminator byte removed, and under CRLF a `\r` before it), flipped by inversion. -/
theorem C01_content_slow (cfg : Config) (m : MatcherI) (inp : Bytes) (hbin : cfg.binary = .none)
    (hs : cfg.stopOnNonmatch = false) (hslow : isLineByLineFast cfg m (Core.new cfg true) = false) :
    reported (sliceByLine cfg m allCont inp).events = selectedLines cfg.lineTerm.asByte (propSel cfg m) inp := by
  rw [C01_slow cfg m inp hbin hs hslow, codeSel_eq_propSel]

/-- **fast path, in the property's words**, under the per-run certificate -/
theorem C01_content_fast (cfg : Config) (m : MatcherI) (inp : Bytes) (hbin : cfg.binary = .none)
    (hs : cfg.stopOnNonmatch = false) (hfast : isLineByLineFast cfg m (Core.new cfg true) = true)
    (hcert : lineSafeCheck cfg m inp (linesOf cfg m inp) = true) :
    reported (sliceByLine cfg m allCont inp).events = selectedLines cfg.lineTerm.asByte (propSel cfg m) inp := by
  rw [C01_fast_cert cfg m inp hbin hs hfast hcert, codeSel_eq_propSel]

/-! ### End to end: searcher + the matcher built by `RegexMatcherBuilder::build_many`

The matcher-level half (module `Props/C01Regex.lean`, C11) speaks about `Rx.MatcherM` (the compiled HIR, the
fast-line literals) and an engine `shortest` satisfying `EngineSpec`.  `bridge` presents that matcher to the
searcher model; the theorems below compose the two halves. -/

open Classical in
/-- **the property's selection**: the user's expression (patterns joined; `-F`, `-w`, `-x`, case options
applied) matches somewhere in the line's content — flipped by inversion -/
noncomputable def userSel (lk : Rx.LookFn) (rcfg : Rx.Config) (pats : List Bytes) (translated : Rx.Hir)
    (lt : Lines.LineTerm) (invert : Bool) (line : Bytes) : Bool :=
  decide (∃ s e, Rx.Matches lk (rcfg.wrap (rcfg.userHir pats translated)) (content lt line) s e) != invert

/-- guard: no line's content contains a byte of the terminator the *pattern* was built for (automatic for a
one-byte terminator equal to the searcher's, `content_no_term`; under `--crlf` it excludes a lone `\r`
inside a line — finding F18) -/
def ContentClean (rcfg : Rx.Config) (lt : Lines.LineTerm) (inp : Bytes) : Prop :=
  ∀ l ∈ splitLines lt.asByte inp, ∀ t ∈ (rcfg.lineTerm.map Rx.LineTerm.bytes).getD [], t ∉ content lt l

theorem propSel_bridge_eq_userSel (lk : Rx.LookFn) (rcfg : Rx.Config) (pats : List Bytes) (translated : Rx.Hir)
    (accelerated : Bool) (optimize : Rx.Seq → Rx.Seq) (norm : Rx.Hir → Rx.Hir) (shortest : Bytes → Option Nat)
    (m : Rx.MatcherM) (hb : rcfg.build pats translated accelerated optimize norm = .ok m)
    (hnorm : ∀ h hay s e, Rx.Matches lk (norm h) hay s e ↔ Rx.Matches lk h hay s e)
    (heng : C11.EngineSpec lk m.hir shortest) (cfg : Config) (l : Bytes)
    (hl : ∀ t ∈ (rcfg.lineTerm.map Rx.LineTerm.bytes).getD [], t ∉ content cfg.lineTerm l) :
    propSel cfg (bridge m shortest) l = userSel lk rcfg pats translated cfg.lineTerm cfg.invertMatch l := by
  have h := C01Regex.C01_regex_isMatch lk rcfg pats translated accelerated optimize norm shortest m hb hnorm heng
    (content cfg.lineTerm l) hl
  unfold propSel userSel MatcherI.isMatch bridge
  simp only [if_true]
  congr 1
  cases hs : (shortest (content cfg.lineTerm l)).isSome
  · have : ¬ ∃ s e, Rx.Matches lk (rcfg.wrap (rcfg.userHir pats translated)) (content cfg.lineTerm l) s e := by
      intro hp; have := h.2 hp; rw [hs] at this; exact Bool.noConfusion this
    simp [this]
  · have := h.1 hs
    simp [this]

/-- **C01, slow path, end to end** — for every pattern list the builder accepts, every flag combination,
every engine meeting `EngineSpec`, every searcher configuration and every input whose line contents are
free of the pattern's terminator bytes: the lines reported as matching are exactly the lines whose content
the user's expression matches (inverted: the others). No guard on the look-arounds is needed: the slow path
asks the matcher about each line alone. -/
theorem C01_slow_end_to_end (lk : Rx.LookFn) (rcfg : Rx.Config) (pats : List Bytes) (translated : Rx.Hir)
    (accelerated : Bool) (optimize : Rx.Seq → Rx.Seq) (norm : Rx.Hir → Rx.Hir) (shortest : Bytes → Option Nat)
    (m : Rx.MatcherM) (hb : rcfg.build pats translated accelerated optimize norm = .ok m)
    (hnorm : ∀ h hay s e, Rx.Matches lk (norm h) hay s e ↔ Rx.Matches lk h hay s e)
    (heng : C11.EngineSpec lk m.hir shortest)
    (cfg : Config) (inp : Bytes) (hbin : cfg.binary = .none) (hs : cfg.stopOnNonmatch = false)
    (hslow : isLineByLineFast cfg (bridge m shortest) (Core.new cfg true) = false)
    (hclean : ContentClean rcfg cfg.lineTerm inp) :
    reported (sliceByLine cfg (bridge m shortest) allCont inp).events =
      selectedLines cfg.lineTerm.asByte (userSel lk rcfg pats translated cfg.lineTerm cfg.invertMatch) inp := by
  rw [C01_content_slow cfg (bridge m shortest) inp hbin hs hslow]
  unfold selectedLines
  have : ((splitLines cfg.lineTerm.asByte inp).map fun l => (l, propSel cfg (bridge m shortest) l))
      = ((splitLines cfg.lineTerm.asByte inp).map fun l =>
          (l, userSel lk rcfg pats translated cfg.lineTerm cfg.invertMatch l)) := by
    apply List.map_congr_left
    intro l hl
    rw [propSel_bridge_eq_userSel lk rcfg pats translated accelerated optimize norm shortest m hb hnorm heng cfg l
      (hclean l hl)]
  rw [this]

/-- **C01, fast path, end to end**, under the guard that the built matcher is line safe on this input
(`LineSafe`; decidable per run through `lineSafeCheck`, `C01_fast_cert`).  The matcher-level half supplies
clauses (a) `C01_regex_no_terminator`, (c) `C01_regex_candidate` and, for expressions whose look-arounds are LF
anchors / ASCII or Unicode word assertions, (b) `LineSafeB_partial(_unicode)`; clause (b) is false in general
(findings F1, F2, F24: `LookContextIndependent_full_fails`, `crlf_match_between_cr_and_lf`). -/
theorem C01_fast_end_to_end (lk : Rx.LookFn) (rcfg : Rx.Config) (pats : List Bytes) (translated : Rx.Hir)
    (accelerated : Bool) (optimize : Rx.Seq → Rx.Seq) (norm : Rx.Hir → Rx.Hir) (shortest : Bytes → Option Nat)
    (m : Rx.MatcherM) (hb : rcfg.build pats translated accelerated optimize norm = .ok m)
    (hnorm : ∀ h hay s e, Rx.Matches lk (norm h) hay s e ↔ Rx.Matches lk h hay s e)
    (heng : C11.EngineSpec lk m.hir shortest)
    (cfg : Config) (inp : Bytes) (hbin : cfg.binary = .none) (hs : cfg.stopOnNonmatch = false)
    (hfast : isLineByLineFast cfg (bridge m shortest) (Core.new cfg true) = true)
    (hsafe : LineSafe cfg (bridge m shortest) inp (linesOf cfg (bridge m shortest) inp))
    (hclean : ContentClean rcfg cfg.lineTerm inp) :
    reported (sliceByLine cfg (bridge m shortest) allCont inp).events =
      selectedLines cfg.lineTerm.asByte (userSel lk rcfg pats translated cfg.lineTerm cfg.invertMatch) inp := by
  rw [C01_fast cfg (bridge m shortest) inp hbin hs hfast hsafe, codeSel_eq_propSel]
  unfold selectedLines
  have : ((splitLines cfg.lineTerm.asByte inp).map fun l => (l, propSel cfg (bridge m shortest) l))
      = ((splitLines cfg.lineTerm.asByte inp).map fun l =>
          (l, userSel lk rcfg pats translated cfg.lineTerm cfg.invertMatch l)) := by
    apply List.map_congr_left
    intro l hl
    rw [propSel_bridge_eq_userSel lk rcfg pats translated accelerated optimize norm shortest m hb hnorm heng cfg l
      (hclean l hl)]
  rw [this]

theorem mem_of_mem_dropLast {a : Nat} {l : Bytes} (h : a ∈ l.dropLast) : a ∈ l := by
  rw [List.dropLast_eq_take] at h; exact List.mem_of_mem_take h

/-- the content of a line never contains the terminator byte the input was split at -/
theorem content_no_term (lt : Lines.LineTerm) (inp : Bytes) (l : Bytes) (hl : l ∈ splitLines lt.asByte inp) :
    lt.asByte ∉ content lt l := by
  have hg := splitLines_good lt.asByte inp
  have hline : Term lt.asByte l ∨ Unterm lt.asByte l := by
    generalize splitLines lt.asByte inp = ls at hg hl
    induction hg with
    | nil => simp at hl
    | last x hu => simp at hl; subst hl; exact Or.inr hu
    | cons x xs ht _ ih =>
      simp only [List.mem_cons] at hl
      rcases hl with rfl | hl
      · exact Or.inl ht
      · exact ih hl
  rcases hline with ⟨body, rfl, hnb⟩ | hu
  · have h1 : (body ++ [lt.asByte]).getLast? = some lt.asByte := by simp
    have h2 : (body ++ [lt.asByte]).dropLast = body := by simp
    unfold content
    rw [if_pos h1, h2]
    split
    · exact fun hm => hnb (mem_of_mem_dropLast hm)
    · exact hnb
  · unfold content
    split
    · split
      · exact fun hm => hu.2 (mem_of_mem_dropLast (mem_of_mem_dropLast hm))
      · exact fun hm => hu.2 (mem_of_mem_dropLast hm)
    · exact hu.2

/-- for a pattern built for the one-byte terminator the searcher splits at (LF, NUL), the guard holds for every input -/
theorem contentClean_byte (rcfg : Rx.Config) (cfg : Config) (inp : Bytes) (b : Nat)
    (h1 : rcfg.lineTerm = some (.byte b)) (h2 : cfg.lineTerm = .byte b) : ContentClean rcfg cfg.lineTerm inp := by
  intro l hl t ht
  simp only [h1, Option.map_some, Option.getD_some, Rx.LineTerm.bytes, List.mem_singleton] at ht
  subst ht
  have := content_no_term cfg.lineTerm inp l hl
  rw [h2] at this ⊢
  exact this

/-- **C01, fast path, end to end with an expression-level guard** (LF terminator): if every look-around of the
compiled expression is an LF line anchor or an ASCII word assertion (`allLooks safeLookLF`, decidable on the
HIR) and the prefilter literals are non-empty and terminator-free, the built matcher is line safe on EVERY
input (`lineSafe_of_contract` + `bridge_contract`: clauses (a), (b), (c) of the matcher-level half and the
engine contract `EngineSpec`: the reported match is a match and the engine never jumps over one — it need not be the leftmost), so the fast path reports exactly the lines whose content the user's expression
matches. Outside the guard clause (b) fails (F1, F2, F24). -/
theorem C01_fast_safe_looks (isWord : Nat → Bool) (rcfg : Rx.Config) (pats : List Bytes) (translated : Rx.Hir)
    (accelerated : Bool) (optimize : Rx.Seq → Rx.Seq) (norm : Rx.Hir → Rx.Hir) (shortest : Bytes → Option Nat)
    (m : Rx.MatcherM) (hb : rcfg.build pats translated accelerated optimize norm = .ok m)
    (hnorm : ∀ h hay s e, Rx.Matches (Rx.lookAt isWord) (norm h) hay s e ↔ Rx.Matches (Rx.lookAt isWord) h hay s e)
    (hopt : C11.OptimizeCert optimize m.hir ((rcfg.lineTerm.map Rx.LineTerm.bytes).getD []))
    (heng : C11.EngineSpec (Rx.lookAt isWord) m.hir shortest)
    (hterm : rcfg.lineTerm = some (.byte 10))
    (hsafe : Rx.allLooks Rx.safeLookLF m.hir = true)
    (hlits : ∀ L, m.fastLits = some L → ∀ l ∈ L, l.bytes ≠ [] ∧ 10 ∉ l.bytes)
    (cfg : Config) (inp : Bytes) (hlt : cfg.lineTerm = .byte 10) (hbin : cfg.binary = .none)
    (hs : cfg.stopOnNonmatch = false)
    (hfast : isLineByLineFast cfg (bridge m shortest) (Core.new cfg true) = true) :
    reported (sliceByLine cfg (bridge m shortest) allCont inp).events =
      selectedLines cfg.lineTerm.asByte
        (userSel (Rx.lookAt isWord) rcfg pats translated cfg.lineTerm cfg.invertMatch) inp := by
  have hasb : cfg.lineTerm.asByte = 10 := by rw [hlt]; rfl
  have L : Layout 10 inp (linesOf cfg (bridge m shortest) inp) := by
    have := layout_splitLines cfg.lineTerm.asByte inp (lineSel cfg (bridge m shortest))
    unfold linesOf
    rw [hasb] at this ⊢; exact this
  have hc := bridge_contract isWord rcfg pats translated accelerated optimize norm shortest m hb hnorm hopt heng hterm
    hsafe hlits
  have hls : LineSafe cfg (bridge m shortest) inp (linesOf cfg (bridge m shortest) inp) :=
    lineSafe_of_contract L (linesOf_length cfg (bridge m shortest) inp) hlt hc (fun _ _ _ _ => trivial)
  exact C01_fast_end_to_end (Rx.lookAt isWord) rcfg pats translated accelerated optimize norm shortest m hb hnorm heng
    cfg inp hbin hs hfast hls (contentClean_byte rcfg cfg inp 10 hterm hlt)

/-- **C01, fast path, end to end, no guard at all** (LF terminator, crlf off): a pattern whose only look-arounds are
the LF line anchors (`verify_on_line` false — the only patterns that still get `Confirmed` answers since /repo
4165f41) is line safe on EVERY input, so the fast path reports exactly the lines whose content the user's
expression matches. -/
theorem C01_fast_own_anchors (isWord : Nat → Bool) (rcfg : Rx.Config) (pats : List Bytes) (translated : Rx.Hir)
    (accelerated : Bool) (optimize : Rx.Seq → Rx.Seq) (norm : Rx.Hir → Rx.Hir) (shortest : Bytes → Option Nat)
    (m : Rx.MatcherM) (hb : rcfg.build pats translated accelerated optimize norm = .ok m)
    (hnorm : ∀ h hay s e, Rx.Matches (Rx.lookAt isWord) (norm h) hay s e ↔ Rx.Matches (Rx.lookAt isWord) h hay s e)
    (hopt : C11.OptimizeCert optimize m.hir ((rcfg.lineTerm.map Rx.LineTerm.bytes).getD []))
    (heng : C11.EngineSpec (Rx.lookAt isWord) m.hir shortest)
    (hterm : rcfg.lineTerm = some (.byte 10)) (hcrlf : rcfg.crlf = false)
    (hv : rcfg.verifyOnLine m.hir = false)
    (hlits : ∀ L, m.fastLits = some L → ∀ l ∈ L, l.bytes ≠ [] ∧ 10 ∉ l.bytes)
    (cfg : Config) (inp : Bytes) (hlt : cfg.lineTerm = .byte 10) (hbin : cfg.binary = .none)
    (hs : cfg.stopOnNonmatch = false)
    (hfast : isLineByLineFast cfg (bridge m shortest) (Core.new cfg true) = true) :
    reported (sliceByLine cfg (bridge m shortest) allCont inp).events =
      selectedLines cfg.lineTerm.asByte
        (userSel (Rx.lookAt isWord) rcfg pats translated cfg.lineTerm cfg.invertMatch) inp := by
  have hown := Rx.allLooks_own_of_not_verify rcfg m.hir hv
  have hsafe : Rx.allLooks Rx.safeLookLF m.hir = true :=
    Rx.allLooks_mono (by intro k hk; cases k <;> simp_all [Rx.Config.isOwnAnchor, Rx.safeLookLF]) m.hir hown
  exact C01_fast_safe_looks isWord rcfg pats translated accelerated optimize norm shortest m hb hnorm hopt heng hterm
    hsafe hlits cfg inp hlt hbin hs hfast

/-- **C01, fast path, end to end, for a matcher built with `verify_on_line`** (any look-arounds; /repo 4165f41): the
searcher re-judges every candidate line on its own, so of context independence only the half "a match of the line alone
is a match in the buffer" (`hlift`, on the windows that pass `G`) is needed — nothing about matches the buffer search
finds because it sees beyond the line (the former findings F1 and F24). -/
theorem C01_fast_verify_on_line (isWord : Nat → Bool) (rcfg : Rx.Config) (pats : List Bytes) (translated : Rx.Hir)
    (accelerated : Bool) (optimize : Rx.Seq → Rx.Seq) (norm : Rx.Hir → Rx.Hir) (shortest : Bytes → Option Nat)
    (m : Rx.MatcherM) (hb : rcfg.build pats translated accelerated optimize norm = .ok m)
    (hnorm : ∀ h hay s e, Rx.Matches (Rx.lookAt isWord) (norm h) hay s e ↔ Rx.Matches (Rx.lookAt isWord) h hay s e)
    (hopt : C11.OptimizeCert optimize m.hir ((rcfg.lineTerm.map Rx.LineTerm.bytes).getD []))
    (heng : C11.EngineSpec (Rx.lookAt isWord) m.hir shortest)
    (hterm : rcfg.lineTerm = some (.byte 10))
    (hv : m.verifyOnLine = true)
    (hlits : ∀ L, m.fastLits = some L → ∀ l ∈ L, l.bytes ≠ [] ∧ 10 ∉ l.bytes)
    (G : Bytes → Nat → Nat → Prop)
    (hlift : ∀ (hay : Bytes) (w c : Nat), G hay w c → (w = 0 ∨ hay[w - 1]? = some 10) →
      (w + c = hay.length ∨ hay[w + c]? = some 10) → w + c ≤ hay.length → ∀ s e, w ≤ s → s ≤ e → e ≤ w + c →
      Rx.Matches (Rx.lookAt isWord) m.hir ((hay.drop w).take c) (s - w) (e - w) →
      Rx.Matches (Rx.lookAt isWord) m.hir hay s e)
    (cfg : Config) (inp : Bytes) (hlt : cfg.lineTerm = .byte 10) (hbin : cfg.binary = .none)
    (hs : cfg.stopOnNonmatch = false)
    (hfast : isLineByLineFast cfg (bridge m shortest) (Core.new cfg true) = true)
    (hG : WinGuard 10 inp (linesOf cfg (bridge m shortest) inp) G) :
    reported (sliceByLine cfg (bridge m shortest) allCont inp).events =
      selectedLines cfg.lineTerm.asByte
        (userSel (Rx.lookAt isWord) rcfg pats translated cfg.lineTerm cfg.invertMatch) inp := by
  have hasb : cfg.lineTerm.asByte = 10 := by rw [hlt]; rfl
  have L : Layout 10 inp (linesOf cfg (bridge m shortest) inp) := by
    have := layout_splitLines cfg.lineTerm.asByte inp (lineSel cfg (bridge m shortest))
    unfold linesOf
    rw [hasb] at this ⊢; exact this
  have hc := bridge_contract_verify isWord rcfg pats translated accelerated optimize norm shortest m hb hnorm hopt heng
    hterm hlits hv G hlift
  have hls : LineSafe cfg (bridge m shortest) inp (linesOf cfg (bridge m shortest) inp) :=
    lineSafe_of_contract L (linesOf_length cfg (bridge m shortest) inp) hlt hc hG
  exact C01_fast_end_to_end (Rx.lookAt isWord) rcfg pats translated accelerated optimize norm shortest m hb hnorm heng
    cfg inp hbin hs hfast hls (contentClean_byte rcfg cfg inp 10 hterm hlt)

/-- **C01, fast path, end to end, for a matcher built with `verify_on_line`, no guard** (LF terminator): every
look-around is an LF line anchor or a word assertion (ASCII or Unicode; that is all a pattern can have when the matcher
still announces its line terminator with crlf off — `C01Regex.fast_path_looks`). The searcher judges every candidate
line on its own and a match of the line alone is always a match in the buffer (`C01Regex.LineSafeB_lift`, also for lines
that start with UTF-8 continuation bytes), so the fast path reports exactly the lines whose content the user's
expression matches, on EVERY input — the former findings F1 and F24 cannot occur. -/
theorem C01_fast_verify_on_line_looks (isWord : Nat → Bool) (hw : isWord 10 = false) (rcfg : Rx.Config)
    (pats : List Bytes) (translated : Rx.Hir)
    (accelerated : Bool) (optimize : Rx.Seq → Rx.Seq) (norm : Rx.Hir → Rx.Hir) (shortest : Bytes → Option Nat)
    (m : Rx.MatcherM) (hb : rcfg.build pats translated accelerated optimize norm = .ok m)
    (hnorm : ∀ h hay s e, Rx.Matches (Rx.lookAt isWord) (norm h) hay s e ↔ Rx.Matches (Rx.lookAt isWord) h hay s e)
    (hopt : C11.OptimizeCert optimize m.hir ((rcfg.lineTerm.map Rx.LineTerm.bytes).getD []))
    (heng : C11.EngineSpec (Rx.lookAt isWord) m.hir shortest)
    (hterm : rcfg.lineTerm = some (.byte 10))
    (hv : m.verifyOnLine = true)
    (hsafe : Rx.allLooks (fun k => Rx.safeLookLF k || Rx.safeLookU k) m.hir = true)
    (hlits : ∀ L, m.fastLits = some L → ∀ l ∈ L, l.bytes ≠ [] ∧ 10 ∉ l.bytes)
    (cfg : Config) (inp : Bytes) (hlt : cfg.lineTerm = .byte 10) (hbin : cfg.binary = .none)
    (hs : cfg.stopOnNonmatch = false)
    (hfast : isLineByLineFast cfg (bridge m shortest) (Core.new cfg true) = true) :
    reported (sliceByLine cfg (bridge m shortest) allCont inp).events =
      selectedLines cfg.lineTerm.asByte
        (userSel (Rx.lookAt isWord) rcfg pats translated cfg.lineTerm cfg.invertMatch) inp := by
  refine C01_fast_verify_on_line isWord rcfg pats translated accelerated optimize norm shortest m hb hnorm hopt heng hterm
    hv hlits (fun _ _ _ => True) ?_ cfg inp hlt hbin hs hfast (fun _ _ _ _ => trivial)
  intro hay w c _ hbefore hafter hle s e h1 h2 h3 hm
  have hl : Rx.IsLine 10 hay w (w + c) := ⟨hle, Nat.le_add_right _ _, hbefore, hafter⟩
  have hsl : Rx.slice hay w (w + c) = (hay.drop w).take c := by simp [Rx.slice]
  exact C01Regex.LineSafeB_lift isWord hw m.hir hsafe hay w (w + c) hl s e h1 h2 (by rw [hsl]; exact hm)

/-- input guard of the Unicode variant: no line's content starts with a UTF-8 continuation byte
(true of every valid UTF-8 text; finding F24 is exactly the excluded case) -/
def NoContLines (inp : Bytes) : Prop :=
  ∀ l ∈ splitLines 10 inp, ∀ b, (content (.byte 10) l)[0]? = some b → Rx.isContByte b = false

theorem winGuard_of_noContLines (cfg : Config) (m : MatcherI) (inp : Bytes) (hlt : cfg.lineTerm = .byte 10)
    (h : NoContLines inp) : WinGuard 10 inp (linesOf cfg m inp) NoContStart := by
  have hasb : cfg.lineTerm.asByte = 10 := by rw [hlt]; rfl
  have L : Layout 10 inp (linesOf cfg m inp) := by
    have := layout_splitLines cfg.lineTerm.asByte inp (lineSel cfg m)
    unfold linesOf
    rw [hasb] at this ⊢; exact this
  have hlen := linesOf_length cfg m inp
  intro p j hpj hj
  have W := window L hlen p j hpj hj
  by_cases hc0 : (ct 10 (linesOf cfg m inp) j).length = 0
  · exact Or.inl hc0
  · right
    have hpos : 0 < (ct 10 (linesOf cfg m inp) j).length := by omega
    have hmem : bytesAt (linesOf cfg m inp) j ∈ splitLines 10 inp := by
      have hj' : j < (splitLines cfg.lineTerm.asByte inp).length := by simpa [linesOf] using hj
      have : bytesAt (linesOf cfg m inp) j = (splitLines cfg.lineTerm.asByte inp)[j] := by
        simp [bytesAt, linesOf, hj']
      rw [this, ← hasb]; exact List.getElem_mem hj'
    have hct : ct 10 (linesOf cfg m inp) j = content (.byte 10) (bytesAt (linesOf cfg m inp) j) :=
      withoutTerminator_eq_content _ _
    have h0 : (ct 10 (linesOf cfg m inp) j)[0]? = some ((ct 10 (linesOf cfg m inp) j)[0]) :=
      List.getElem?_eq_getElem hpos
    have hb := h _ hmem _ (by rw [← hct]; exact h0)
    have hget : (inp.drop (offsetAt (linesOf cfg m inp) p))[offsetAt (linesOf cfg m inp) j - offsetAt (linesOf cfg m inp) p]?
        = some ((ct 10 (linesOf cfg m inp) j)[0]) := by
      have h1 : ((inp.drop (offsetAt (linesOf cfg m inp) p)).drop
          (offsetAt (linesOf cfg m inp) j - offsetAt (linesOf cfg m inp) p))[0]?
          = (ct 10 (linesOf cfg m inp) j)[0]? := by
        conv => rhs; rw [← W.slice_eq]
        rw [List.getElem?_take_of_lt hpos]
      rw [List.getElem?_drop, Nat.add_zero] at h1
      rw [h1, h0]
    rw [List.getD_eq_getElem?_getD, hget]
    exact hb

/-- **C01, fast path, end to end, including the Unicode word assertions** (ripgrep's default `-w` wraps the
expression in the Unicode half-word assertions): same statement as `C01_fast_safe_looks` with the guard
`allLooks (safeLookLF ∨ safeLookU)`, for a word table in which `\n` is not a word character and inputs none of
whose lines starts with a UTF-8 continuation byte. -/
theorem C01_fast_safe_looks_unicode (isWord : Nat → Bool) (hw : isWord 10 = false) (rcfg : Rx.Config)
    (pats : List Bytes) (translated : Rx.Hir)
    (accelerated : Bool) (optimize : Rx.Seq → Rx.Seq) (norm : Rx.Hir → Rx.Hir) (shortest : Bytes → Option Nat)
    (m : Rx.MatcherM) (hb : rcfg.build pats translated accelerated optimize norm = .ok m)
    (hnorm : ∀ h hay s e, Rx.Matches (Rx.lookAt isWord) (norm h) hay s e ↔ Rx.Matches (Rx.lookAt isWord) h hay s e)
    (hopt : C11.OptimizeCert optimize m.hir ((rcfg.lineTerm.map Rx.LineTerm.bytes).getD []))
    (heng : C11.EngineSpec (Rx.lookAt isWord) m.hir shortest)
    (hterm : rcfg.lineTerm = some (.byte 10))
    (hsafe : Rx.allLooks (fun k => Rx.safeLookLF k || Rx.safeLookU k) m.hir = true)
    (hlits : ∀ L, m.fastLits = some L → ∀ l ∈ L, l.bytes ≠ [] ∧ 10 ∉ l.bytes)
    (cfg : Config) (inp : Bytes) (hlt : cfg.lineTerm = .byte 10) (hbin : cfg.binary = .none)
    (hs : cfg.stopOnNonmatch = false)
    (hfast : isLineByLineFast cfg (bridge m shortest) (Core.new cfg true) = true)
    (hcont : NoContLines inp) :
    reported (sliceByLine cfg (bridge m shortest) allCont inp).events =
      selectedLines cfg.lineTerm.asByte
        (userSel (Rx.lookAt isWord) rcfg pats translated cfg.lineTerm cfg.invertMatch) inp := by
  have hasb : cfg.lineTerm.asByte = 10 := by rw [hlt]; rfl
  have L : Layout 10 inp (linesOf cfg (bridge m shortest) inp) := by
    have := layout_splitLines cfg.lineTerm.asByte inp (lineSel cfg (bridge m shortest))
    unfold linesOf
    rw [hasb] at this ⊢; exact this
  have hc := bridge_contract_unicode isWord hw rcfg pats translated accelerated optimize norm shortest m hb hnorm hopt
    heng hterm hsafe hlits
  have hls : LineSafe cfg (bridge m shortest) inp (linesOf cfg (bridge m shortest) inp) :=
    lineSafe_of_contract L (linesOf_length cfg (bridge m shortest) inp) hlt hc
      (winGuard_of_noContLines cfg (bridge m shortest) inp hlt hcont)
  exact C01_fast_end_to_end (Rx.lookAt isWord) rcfg pats translated accelerated optimize norm shortest m hb hnorm heng
    cfg inp hbin hs hfast hls (contentClean_byte rcfg cfg inp 10 hterm hlt)

/-! ### the matcher-level half, re-exported (proved in `Props/C01Regex.lean`) -/

open RgVerif.Rx RgVerif.Props.C11 in
theorem C01_regex_no_terminator (lk : LookFn) (cfg : Rx.Config) (pats : List Bytes) (translated : Hir)
    (accelerated : Bool) (optimize : Seq → Seq) (norm : Hir → Hir) (shortest : Bytes → Option Nat) (m : MatcherM)
    (hb : cfg.build pats translated accelerated optimize norm = .ok m)
    (hnorm : ∀ h hay s e, Matches lk (norm h) hay s e → Matches lk h hay s e)
    (hopt : OptimizeCert optimize m.hir ((cfg.lineTerm.map Rx.LineTerm.bytes).getD []))
    (heng : EngineSpec lk m.hir shortest)
    (hay : Bytes) (s e : Nat) (hm : Matches lk m.hir hay s e) :
    ∀ t ∈ (cfg.lineTerm.map Rx.LineTerm.bytes).getD [], t ∉ Rx.slice hay s e :=
  C01Regex.C01_regex_no_terminator lk cfg pats translated accelerated optimize norm shortest m hb hnorm hopt heng hay s e hm

open RgVerif.Rx RgVerif.Props.C11 in
theorem C01_regex_candidate (lk : LookFn) (cfg : Rx.Config) (pats : List Bytes) (translated : Hir)
    (accelerated : Bool) (optimize : Seq → Seq) (norm : Hir → Hir) (shortest : Bytes → Option Nat) (m : MatcherM)
    (hb : cfg.build pats translated accelerated optimize norm = .ok m)
    (hnorm : ∀ h hay s e, Matches lk (norm h) hay s e → Matches lk h hay s e)
    (hopt : OptimizeCert optimize m.hir ((cfg.lineTerm.map Rx.LineTerm.bytes).getD []))
    (heng : EngineSpec lk m.hir shortest)
    (hay : Bytes) (s e : Nat) (hm : Matches lk m.hir hay s e) :
    ∃ c, m.findCandidateLine shortest hay = some c ∧
      ∀ t ∈ (cfg.lineTerm.map Rx.LineTerm.bytes).getD [], NoByteIn t hay e c.offset :=
  C01Regex.C01_regex_candidate lk cfg pats translated accelerated optimize norm shortest m hb hnorm hopt heng hay s e hm

open RgVerif.Rx RgVerif.Props.C11 in
theorem C01_regex_isMatch (lk : LookFn) (cfg : Rx.Config) (pats : List Bytes) (translated : Hir)
    (accelerated : Bool) (optimize : Seq → Seq) (norm : Hir → Hir) (shortest : Bytes → Option Nat) (m : MatcherM)
    (hb : cfg.build pats translated accelerated optimize norm = .ok m)
    (hnorm : ∀ h hay s e, Matches lk (norm h) hay s e ↔ Matches lk h hay s e)
    (heng : EngineSpec lk m.hir shortest)
    (l : Bytes) (hl : ∀ t ∈ (cfg.lineTerm.map Rx.LineTerm.bytes).getD [], t ∉ l) :
    (shortest l).isSome = true ↔ ∃ s e, Matches lk (cfg.wrap (cfg.userHir pats translated)) l s e :=
  C01Regex.C01_regex_isMatch lk cfg pats translated accelerated optimize norm shortest m hb hnorm heng l hl

open RgVerif.Rx in
theorem LineSafeB_partial (isWord : Nat → Bool) (h : Hir) (hsafe : allLooks safeLookLF h = true)
    (buf : Bytes) (ls le : Nat) (hl : IsLine 10 buf ls le) (s e : Nat) (h1 : ls ≤ s) (hse : s ≤ e) (h2 : e ≤ le) :
    Matches (lookAt isWord) h buf s e ↔ Matches (lookAt isWord) h (Rx.slice buf ls le) (s - ls) (e - ls) :=
  C01Regex.LineSafeB_partial isWord h hsafe buf ls le hl s e h1 hse h2

theorem LookContextIndependent_full_fails : ¬ C01Regex.LookContextIndependent_full :=
  C01Regex.LookContextIndependent_full_fails

/-! ### Non-vacuity -/

def mHasA : MatcherI := MatcherI.ofFindAt fun h at_ => if 97 ∈ h.drop at_ then some ⟨at_, h.length⟩ else none
def cfgCrlf : Config := { lineTerm := .crlf }

example : isLineByLineFast cfgCrlf mHasA (Core.new cfgCrlf true) = false := by decide

/-- CRLF mode, `ab\r\nb\na`: lines 1 and 3 are reported, with their offsets -/
example : reported (sliceByLine cfgCrlf mHasA allCont [97, 98, 13, 10, 98, 10, 97]).events
    = [(0, [97, 98, 13, 10]), (6, [97])] := by decide

end RgVerif.Props.C01
