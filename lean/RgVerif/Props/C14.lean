import RgVerif.Lemmas.LineBufferFill
import RgVerif.Lemmas.BinaryOut
import RgVerif.Lemmas.ReadByLineClean
import RgVerif.Lemmas.CoreSliceContract
import RgVerif.Lemmas.CoreMultiLinePres
/-
C14 — binary data never reaches the output unless text mode is requested.
-/
namespace RgVerif.Props.C14
open RgVerif RgVerif.LineBuffer RgVerif.BinaryOut

/-! ### the roll buffer (reader strategy): the doc-comment's promise, for every chunking -/

/-- `Quit(b)` / `Convert(b)` (with `b` different from the line terminator — for `b = lineterm`
`replace_bytes` does nothing): after any sequence of `fill`/`consume` on any reader, any capacity,
`buffer()` never contains `b`; a recorded `binary_byte_offset` is the offset of the first `b` of
the input; and while none is recorded no `b` lies in the part of the input delivered so far. -/
theorem linebuffer_hides_byte (cfg : Config) (b : Nat)
    (hb : cfg.binary = .quit b ∨ (cfg.binary = .convert b ∧ b ≠ cfg.lineterm))
    (inp : Bytes) (script : List Step) (ops : List Op) :
    b ∉ (reach cfg inp script ops).buffer ∧
    (∀ o, (reach cfg inp script ops).binOff = some o → findByte b inp = some o) ∧
    ((reach cfg inp script ops).binOff = none →
      b ∉ inp.take ((reach cfg inp script ops).abs + (reach cfg inp script ops).buffer.length)) := by
  unfold reach
  generalize hs : (run (LB.init cfg) ⟨inp, script, 0⟩ ops).1 = s
  obtain ⟨a, m, rest, h⟩ := run_inv cfg inp ops _ _ _ _ _ (Inv.init cfg inp script)
  rw [hs] at h
  refine ⟨?_, ?_, ?_⟩
  · intro hm
    have hm' := mem_buffer_of hm
    cases hb with
    | inl hq => exact h.hides_quit b hq hm'
    | inr hc => exact h.hides_convert b hc.1 hc.2 hm'
  · intro o ho
    exact h.binOff_first b o hb ho
  · intro ho
    have hnm := h.binOff_none b hb ho
    have hl := h.buffer_len
    have hm := h.mlen
    have hlast := h.hlast
    intro hmem
    apply hnm
    have hsub : inp.take (s.abs + s.buffer.length) = a ++ m.take s.buffer.length := by
      rw [h.split, ← h.habs, List.take_append, List.take_of_length_le (by omega)]
      simp only [Nat.add_sub_cancel_left]
      rw [List.take_append_of_le_length (by omega)]
    rw [hsub] at hmem
    simp only [List.mem_append] at hmem ⊢
    cases hmem with
    | inl x => exact Or.inl x
    | inr x => exact Or.inr (List.mem_of_mem_take x)

/-- **A reused buffer starts clean.**  `LineBufferReader::new` clears the buffer it is handed; from
that cleared state — whatever the buffer held before (another file's data, a recorded binary
offset, a grown vector) — the promises hold for the next reader exactly as for a fresh buffer:
window of the new input, binary byte never visible, a recorded offset is the first occurrence in
the NEW input. -/
theorem linebuffer_reused (cfg : Config) (b : Nat)
    (hb : cfg.binary = .quit b ∨ (cfg.binary = .convert b ∧ b ≠ cfg.lineterm))
    (s0 : LB) (hc : s0.cfg = cfg) (inp : Bytes) (script : List Step) (ops : List Op) :
    (run s0.clear ⟨inp, script, 0⟩ ops).1.buffer =
        window (view cfg inp) (run s0.clear ⟨inp, script, 0⟩ ops).1.abs
          (run s0.clear ⟨inp, script, 0⟩ ops).1.buffer.length ∧
    b ∉ (run s0.clear ⟨inp, script, 0⟩ ops).1.buffer ∧
    (∀ o, (run s0.clear ⟨inp, script, 0⟩ ops).1.binOff = some o → findByte b inp = some o) ∧
    s0.clear.binOff = none := by
  obtain ⟨a, m, rest, h⟩ := run_inv cfg inp ops _ _ _ _ _ (Inv.clear cfg s0 hc ⟨inp, script, 0⟩)
  refine ⟨h.window, ?_, fun o ho => h.binOff_first b o hb ho, rfl⟩
  intro hm
  have hm' := mem_buffer_of hm
  cases hb with
  | inl hq => exact h.hides_quit b hq hm'
  | inr hcv => exact h.hides_convert b hcv.1 hcv.2 hm'

/-- `Quit`: once the byte was seen `fill` reads nothing more and changes nothing ("acts as if it
reached EOF"). -/
theorem quit_stops_reading (s : LB) (r : Reader) (b : Nat) (hb : s.cfg.binary = .quit b)
    (ho : s.binOff.isSome = true) : s.fill r = (s, r, .ok (!s.buffer.isEmpty)) := by
  unfold LB.fill
  simp [hb, BinDet.isQuit, ho]

/-- `Convert(b)`: what the caller sees is the input with every `b` replaced by the terminator. -/
theorem convert_replaces_every_byte (cfg : Config) (b : Nat) (hb : cfg.binary = .convert b)
    (inp : Bytes) (script : List Step) (ops : List Op) :
    (reach cfg inp script ops).buffer =
      window (inp.map (convByte b cfg.lineterm)) (reach cfg inp script ops).abs
        (reach cfg inp script ops).buffer.length := by
  unfold reach
  obtain ⟨a, m, rest, h⟩ := run_inv cfg inp ops _ _ _ _ _ (Inv.init cfg inp script)
  have := h.window
  simpa [view, hb] using this

/-- Every line the reader strategy hands to a sink is a sub-slice of some `buffer()`; none of them
contains the binary byte. -/
theorem delivered_no_nul (cfg : Config) (b : Nat)
    (hb : cfg.binary = .quit b ∨ (cfg.binary = .convert b ∧ b ≠ cfg.lineterm))
    (inp : Bytes) (script : List Step) (ops : List Op) (line : Bytes)
    (hl : line <:+: (reach cfg inp script ops).buffer) : b ∉ line := by
  intro hm
  exact (linebuffer_hides_byte cfg b hb inp script ops).1 (hl.subset hm)

/-! ### the standard printer -/

/-- **No NUL on stdout.**  With detection on, whatever stream the searcher delivers under its
contract (`Quit`: no delivered line holds a NUL; `Convert`: a line with a NUL comes only after
`binary_data` — the slice strategies deliver such lines, the printer's guard drops them), the
bytes written by the standard printer hold no NUL, provided the path has none. -/
theorem C14_stdout (det : Det) (hn : det ≠ .none) (evs : List Ev)
    (hq : det = .quit → Clean evs) (hc : det = .convert → Guarded evs)
    (path : Bytes) (hp : 0 ∉ path) : 0 ∉ render path (stdRun det evs) := by
  apply render_no_nul path hp
  unfold stdRun
  apply finish_fileBytes
  apply feed_no_nul det evs {} [] (by simp) (by simp) hq _ hn
  intro h pre ev post hs h0
  simpa using hc h pre ev post hs h0

/-! ### the searcher contract, derived from the model of `Core` and `ReadByLine` (reader strategy) -/

/-- what the printer model is told for a callback of the searcher model -/
def toEv : Searcher.Event → Option Ev
  | .matched ln off bs => some (.matched off (ln.getD 0) bs)
  | .context _ ln off bs => some (.context off (ln.getD 0) bs)
  | .contextBreak => some .ctxBreak
  | .binaryData off => some (.binaryData off)
  | .begin => none
  | .finish _ _ => none

/-- **Reader strategy: the contract holds.**  For every configuration (contexts, passthru,
inversion, stop-on-nonmatch), every matcher, every sink script, every input, read script and
capacity: no line that `ReadByLine` over `Core` hands to the sink holds the binary byte
(`Quit(b)`, or `Convert(b)` with `b` ≠ terminator).  Every delivered line is a slice of some
`buffer()` (`matchByLine_ext`), and `buffer()` never holds the byte (`linebuffer_hides_byte`). -/
theorem reader_delivers_clean (cfg : Searcher.Config) (m : Searcher.MatcherI) (σ : Searcher.Script)
    (lbcfg : LineBuffer.Config) (b : Nat)
    (hb : lbcfg.binary = .quit b ∨ (lbcfg.binary = .convert b ∧ b ≠ lbcfg.lineterm)) (rdr : Reader) :
    ∀ ev ∈ (Searcher.readByLine cfg m σ lbcfg rdr).events, b ∉ ev.lineBytes :=
  Searcher.readByLine_clean cfg m σ lbcfg b hb rdr

/-- **Reader strategy end to end (model of searcher + roll buffer + printer): no NUL is written.**
Whatever the sink script — in particular the printer's own answers — the standard printer fed
with the callbacks of a `ReadByLine` run over a NUL-hiding roll buffer writes no NUL. -/
theorem reader_stdout_no_nul (cfg : Searcher.Config) (m : Searcher.MatcherI) (σ : Searcher.Script)
    (lbcfg : LineBuffer.Config) (hlt : 0 ≠ lbcfg.lineterm)
    (det : Det) (hd : (det = .quit ∧ lbcfg.binary = .quit 0) ∨ (det = .convert ∧ lbcfg.binary = .convert 0))
    (rdr : Reader) (path : Bytes) (hp : 0 ∉ path) :
    0 ∉ render path (stdRun det ((Searcher.readByLine cfg m σ lbcfg rdr).events.filterMap toEv)) := by
  have hb : lbcfg.binary = .quit 0 ∨ (lbcfg.binary = .convert 0 ∧ 0 ≠ lbcfg.lineterm) := by
    cases hd with
    | inl h => exact Or.inl h.2
    | inr h => exact Or.inr ⟨h.2, hlt⟩
  have hclean : Clean ((Searcher.readByLine cfg m σ lbcfg rdr).events.filterMap toEv) := by
    intro ev hev
    rw [List.mem_filterMap] at hev
    obtain ⟨e, he, hte⟩ := hev
    have hc := reader_delivers_clean cfg m σ lbcfg 0 hb rdr e he
    cases e <;> simp [toEv] at hte <;> subst hte <;> simp_all [Ev.bytes, Searcher.Event.lineBytes]
  have hn : det ≠ .none := by
    cases hd with
    | inl h => rw [h.1]; decide
    | inr h => rw [h.1]; decide
  apply C14_stdout det hn _ (fun _ => hclean) _ path hp
  intro _ pre ev post _ h0
  exact absurd h0 (hclean ev (by simp_all))

/-! ### the searcher contract for the slice strategy (`SliceByLine` over `Core`) -/

/-- **Slice strategy, `Quit(b)`: no delivered line holds `b`** (every `sink_*` runs `detect_binary`
on the line first and stops instead of delivering) — every configuration, matcher, sink script. -/
theorem slice_delivers_clean (cfg : Searcher.Config) (m : Searcher.MatcherI) (σ : Searcher.Script)
    (inp : Bytes) (b : Nat) (hb : cfg.binary = .quit b) :
    ∀ ev ∈ (Searcher.sliceByLine cfg m σ inp).events, b ∉ ev.lineBytes :=
  (Searcher.sliceByLine_SI cfg m σ inp b (by rw [hb]; rfl)).clean (by rw [hb]; rfl)

/-- **Slice strategy, `Quit(b)` or `Convert(b)`: a line holding `b` is delivered only after
`binary_data` was reported** (the printer's guard then drops it). -/
theorem slice_delivers_guarded (cfg : Searcher.Config) (m : Searcher.MatcherI) (σ : Searcher.Script)
    (inp : Bytes) (b : Nat) (hb : cfg.binary = .quit b ∨ cfg.binary = .convert b) :
    Searcher.GuardedL b (Searcher.sliceByLine cfg m σ inp).events :=
  (Searcher.sliceByLine_SI cfg m σ inp b (by cases hb with | inl h => rw [h]; rfl | inr h => rw [h]; rfl)).guarded

/-- **Slice strategy end to end (model of `SliceByLine` + `Core` + printer): no NUL is written.** -/
theorem slice_stdout_no_nul (cfg : Searcher.Config) (m : Searcher.MatcherI) (σ : Searcher.Script)
    (inp : Bytes) (det : Det)
    (hd : (det = .quit ∧ cfg.binary = .quit 0) ∨ (det = .convert ∧ cfg.binary = .convert 0))
    (path : Bytes) (hp : 0 ∉ path) :
    0 ∉ render path (stdRun det ((Searcher.sliceByLine cfg m σ inp).events.filterMap toEv)) := by
  have hn : det ≠ .none := by
    cases hd with
    | inl h => rw [h.1]; decide
    | inr h => rw [h.1]; decide
  have hbytes : ∀ (e : Searcher.Event) (e' : Ev), toEv e = some e' → e'.bytes = e.lineBytes ∧
      (e.isBD = true ↔ e'.isBinaryData = true) := by
    intro e e' h
    cases e <;> simp [toEv] at h <;> subst h <;>
      simp [Ev.bytes, Searcher.Event.lineBytes, Searcher.Event.isBD, Ev.isBinaryData]
  apply C14_stdout det hn _ _ _ path hp
  · intro hq
    have hb : cfg.binary = .quit 0 := by
      cases hd with
      | inl h => exact h.2
      | inr h => rw [h.1] at hq; cases hq
    intro ev hev
    rw [List.mem_filterMap] at hev
    obtain ⟨e, he, hte⟩ := hev
    rw [(hbytes e ev hte).1]
    exact slice_delivers_clean cfg m σ inp 0 hb e he
  · intro _ pre ev post hsplit h0
    have hg := slice_delivers_guarded cfg m σ inp 0
      (by cases hd with | inl h => exact Or.inl h.2 | inr h => exact Or.inr h.2)
    rw [List.filterMap_eq_append_iff] at hsplit
    obtain ⟨l1, l2, hl, h1, h2⟩ := hsplit
    rw [List.filterMap_eq_cons_iff] at h2
    obtain ⟨m1, a, m2, hl2, hnone, ha, _⟩ := h2
    have hsrc : (Searcher.sliceByLine cfg m σ inp).events = (l1 ++ m1) ++ a :: m2 := by
      rw [hl, hl2]; simp
    obtain ⟨e, hme, hbd⟩ := hg (l1 ++ m1) a m2 hsrc (by rw [← (hbytes a ev ha).1]; exact h0)
    simp only [List.mem_append] at hme
    cases hme with
    | inl hin =>
      -- a reported `binary_data` survives `toEv`
      cases e with
      | binaryData off =>
        refine ⟨.binaryData off, ?_, rfl⟩
        rw [← h1, List.mem_filterMap]
        exact ⟨_, hin, rfl⟩
      | _ => simp [Searcher.Event.isBD] at hbd
    | inr hin =>
      have := hnone e hin
      cases e <;> simp [toEv] at this <;> simp [Searcher.Event.isBD] at hbd

/-! ### the searcher contract for the multi-line strategy (`MultiLine` over `Core`, `-U`) -/

/-- **Multi-line strategy, `Quit(b)`: no delivered line holds `b`.**  Everything `MultiLine`
delivers -- the lines of a (merged) match, of an inverted run, before / after / passthru context,
the trailing context at the end -- goes through `Core::matched` or a `*_context_by_line` helper,
i.e. through a `sink_*` call that runs `detect_binary` on the line first; what `MultiLine` does
itself only moves `pos` and `last_match`.  Every configuration, matcher, sink script, input. -/
theorem multiline_delivers_clean (cfg : Searcher.Config) (m : Searcher.MatcherI) (σ : Searcher.Script)
    (inp : Bytes) (b : Nat) (hb : cfg.binary = .quit b) :
    ∀ ev ∈ (Searcher.multiLine cfg m σ inp).events, b ∉ ev.lineBytes :=
  (Searcher.multiLine_SI cfg m σ inp b (by rw [hb]; rfl)).clean (by rw [hb]; rfl)

/-- **Multi-line strategy, `Quit(b)` or `Convert(b)`: a line holding `b` is delivered only after
`binary_data` was reported.** -/
theorem multiline_delivers_guarded (cfg : Searcher.Config) (m : Searcher.MatcherI) (σ : Searcher.Script)
    (inp : Bytes) (b : Nat) (hb : cfg.binary = .quit b ∨ cfg.binary = .convert b) :
    Searcher.GuardedL b (Searcher.multiLine cfg m σ inp).events :=
  (Searcher.multiLine_SI cfg m σ inp b (by cases hb with | inl h => rw [h]; rfl | inr h => rw [h]; rfl)).guarded

/-- **Any run that keeps the searcher contract prints no NUL**: the standard printer fed with the
callbacks of a core whose log is clean under `Quit(0)` and guarded under `Quit(0)` / `Convert(0)`. -/
theorem contract_stdout_no_nul (cfg : Searcher.Config) (st : Searcher.Core) (hSI : Searcher.SI cfg 0 st) (det : Det)
    (hd : (det = .quit ∧ cfg.binary = .quit 0) ∨ (det = .convert ∧ cfg.binary = .convert 0))
    (path : Bytes) (hp : 0 ∉ path) :
    0 ∉ render path (stdRun det (st.events.filterMap toEv)) := by
  have hn : det ≠ .none := by
    cases hd with
    | inl h => rw [h.1]; decide
    | inr h => rw [h.1]; decide
  have hbytes : ∀ (e : Searcher.Event) (e' : Ev), toEv e = some e' → e'.bytes = e.lineBytes ∧
      (e.isBD = true ↔ e'.isBinaryData = true) := by
    intro e e' h
    cases e <;> simp [toEv] at h <;> subst h <;>
      simp [Ev.bytes, Searcher.Event.lineBytes, Searcher.Event.isBD, Ev.isBinaryData]
  apply C14_stdout det hn _ _ _ path hp
  · intro hq
    have hb : cfg.binary = .quit 0 := by
      cases hd with
      | inl h => exact h.2
      | inr h => rw [h.1] at hq; cases hq
    intro ev hev
    rw [List.mem_filterMap] at hev
    obtain ⟨e, he, hte⟩ := hev
    rw [(hbytes e ev hte).1]
    exact hSI.clean (by rw [hb]; rfl) e he
  · intro _ pre ev post hsplit h0
    have hg := hSI.guarded
    rw [List.filterMap_eq_append_iff] at hsplit
    obtain ⟨l1, l2, hl, h1, h2⟩ := hsplit
    rw [List.filterMap_eq_cons_iff] at h2
    obtain ⟨m1, a, m2, hl2, hnone, ha, _⟩ := h2
    have hsrc : st.events = (l1 ++ m1) ++ a :: m2 := by
      rw [hl, hl2]; simp
    obtain ⟨e, hme, hbd⟩ := hg (l1 ++ m1) a m2 hsrc (by rw [← (hbytes a ev ha).1]; exact h0)
    simp only [List.mem_append] at hme
    cases hme with
    | inl hin =>
      cases e with
      | binaryData off =>
        refine ⟨.binaryData off, ?_, rfl⟩
        rw [← h1, List.mem_filterMap]
        exact ⟨_, hin, rfl⟩
      | _ => simp [Searcher.Event.isBD] at hbd
    | inr hin =>
      have := hnone e hin
      cases e <;> simp [toEv] at this <;> simp [Searcher.Event.isBD] at hbd

/-- **Multi-line strategy end to end (model of `MultiLine` + `Core` + printer): no NUL is written.** -/
theorem multiline_stdout_no_nul (cfg : Searcher.Config) (m : Searcher.MatcherI) (σ : Searcher.Script)
    (inp : Bytes) (det : Det)
    (hd : (det = .quit ∧ cfg.binary = .quit 0) ∨ (det = .convert ∧ cfg.binary = .convert 0))
    (path : Bytes) (hp : 0 ∉ path) :
    0 ∉ render path (stdRun det ((Searcher.multiLine cfg m σ inp).events.filterMap toEv)) :=
  contract_stdout_no_nul cfg _
    (Searcher.multiLine_SI cfg m σ inp 0 (by cases hd with | inl h => rw [h.2]; rfl | inr h => rw [h.2]; rfl))
    det hd path hp

/-- **`search_slice`, whichever strategy it selects** (line by line or multi-line, also after the
downgrade of `-U`): no NUL is written. -/
theorem search_slice_stdout_no_nul (cfg : Searcher.Config) (m : Searcher.MatcherI) (σ : Searcher.Script)
    (inp : Bytes) (det : Det)
    (hd : (det = .quit ∧ cfg.binary = .quit binaryByte) ∨ (det = .convert ∧ cfg.binary = .convert binaryByte))
    (path : Bytes) (hp : binaryByte ∉ path) :
    binaryByte ∉ render path (stdRun det ((Searcher.searchSlice cfg m σ inp).events.filterMap toEv)) := by
  unfold binaryByte at hd hp ⊢
  unfold Searcher.searchSlice
  split
  · exact multiline_stdout_no_nul cfg m σ inp det hd path hp
  · exact slice_stdout_no_nul cfg m σ inp det hd path hp

/-- **`search_reader`, whichever strategy it selects** (the roll buffer line by line, or -- `-U` --
the whole input read into memory and searched by `MultiLine`), any heap limit, capacity, read
script: ripgrep's binary byte (`binaryByte`, NUL, source-anchored) is never written (line terminator ≠ NUL). -/
theorem search_reader_stdout_no_nul (cfg : Searcher.Config) (m : Searcher.MatcherI) (σ : Searcher.Script)
    (heapLimit cap : Option Nat) (rdr : Reader) (hlt : binaryByte ≠ cfg.lineTerm.asByte) (det : Det)
    (hd : (det = .quit ∧ cfg.binary = .quit binaryByte) ∨ (det = .convert ∧ cfg.binary = .convert binaryByte))
    (path : Bytes) (hp : binaryByte ∉ path) :
    binaryByte ∉ render path (stdRun det ((Searcher.searchReader cfg m σ heapLimit cap rdr).events.filterMap toEv)) := by
  unfold binaryByte at hlt hd hp ⊢
  unfold Searcher.searchReader
  split
  · split
    · -- the heap limit stops the multi-line read: no callback at all
      have : (({ core := Searcher.Core.new cfg true, result := Searcher.Res.err } : Searcher.Run).events.filterMap toEv) = [] := rfl
      rw [this]
      simp [stdRun, BinaryOut.finish, feed, render]
    · exact multiline_stdout_no_nul cfg m σ rdr.data det hd path hp
  · have hbin : (Searcher.lineBufferConfig cfg heapLimit cap).binary = cfg.binary.toLB := by
      unfold Searcher.lineBufferConfig
      cases heapLimit with
      | none => rfl
      | some l => dsimp only
    have hterm : (Searcher.lineBufferConfig cfg heapLimit cap).lineterm = cfg.lineTerm.asByte := by
      unfold Searcher.lineBufferConfig
      cases heapLimit with
      | none => rfl
      | some l => dsimp only
    apply reader_stdout_no_nul cfg m σ _ (by rw [hterm]; exact hlt) det _ rdr.withBomPeek path hp
    rw [hbin]
    cases hd with
    | inl h => exact Or.inl ⟨h.1, by rw [h.2]; rfl⟩
    | inr h => exact Or.inr ⟨h.1, by rw [h.2]; rfl⟩

/-! ### which detection a file gets (`hiargs.rs`, `search.rs`) -/

/-- The decision table of `BinaryDetection::from_low_args` + `SearchWorker::search`. -/
theorem detection_table :
    (∀ nd ex, chooseDet ex (fromLowArgs .asText nd) = .none) ∧
    (∀ m ex, chooseDet ex (fromLowArgs m true) = .none) ∧
    chooseDet false (fromLowArgs .auto false) = .quit ∧
    chooseDet true (fromLowArgs .auto false) = .convert ∧
    (∀ ex, chooseDet ex (fromLowArgs .searchAndSuppress false) = .convert) := by
  refine ⟨?_, ?_, rfl, rfl, ?_⟩
  · intro nd ex; cases nd <;> cases ex <;> rfl
  · intro m ex; cases m <;> cases ex <;> rfl
  · intro ex; cases ex <;> rfl

/-- **`--text` equals detection disabled**: `--text` selects `none` for every file (see
`detection_table`), and with `none` the printer writes every delivered line and separator and
never a notice. -/
theorem text_eq_no_detection (evs : List Ev) : stdRun .none evs = evs.filterMap toItem := by
  unfold stdRun finish
  have h := feed_plain .none (by decide) evs {}
  split
  · simpa using h
  · split
    · simpa using h
    · simpa using h

/-- in `Quit` mode a counted match was printed -/
theorem quit_match_printed (pre : List Ev) (h : (feed .quit {} pre).matchCount ≠ 0) :
    pre.filterMap toItem ≠ [] := by
  rw [feed_quit_matchCount] at h
  have hpos : 0 < (pre.filter Ev.isMatched).length := by
    have : ({} : St).matchCount = 0 := rfl
    omega
  obtain ⟨e, he⟩ := List.exists_mem_of_length_pos hpos
  rw [List.mem_filter] at he
  intro hnil
  rw [List.filterMap_eq_nil_iff] at hnil
  have hn := hnil e he.1
  cases e <;> simp [toItem, Ev.isMatched] at hn he

/-- **Implicit file, default mode (`Quit`)**: when the searcher reports binary data (and, being in
`Quit` mode, stops), the output is what was printed before — nothing at all if nothing was
("dropped") — followed, whenever something was printed, by the warning ("cut off"; since fix
ea82056 also when no line matched, in the wording without "after match"). -/
theorem implicit_dropped_or_cut (pre : List Ev) (off : Nat) :
    stdRun .quit (pre ++ [.binaryData off]) =
      pre.filterMap toItem ++
        (if pre.filterMap toItem = [] then []
         else [if (feed .quit {} pre).matchCount = 0 then .stoppedNoMatch off else .stoppedWarning off]) := by
  have key : ∀ st : St, feed .quit st (pre ++ [.binaryData off]) =
      { feed .quit st pre with binOff := some off } := by
    induction pre with
    | nil => intro st; simp [feed, step]
    | cons ev pre ih =>
      intro st
      cases ev <;> simp [feed, step, ih]
  unfold stdRun
  rw [key]
  have h : (feed .quit {} pre).out = pre.filterMap toItem := by
    have := feed_plain .quit (by decide) pre {}
    simpa using this
  simp only [finish, cutShort, h]
  by_cases hi : pre.filterMap toItem = []
  · have hmc : (feed .quit {} pre).matchCount = 0 := by
      apply Classical.byContradiction
      intro hne
      exact quit_match_printed pre hne hi
    simp [hi, hmc]
  · simp [hi]

/-- **Explicit file or `--binary` (`Convert`)**: from the first `binary_data` on, no line of the
file is written any more: the output is what was printed before, possibly context separators, and
at most the `binary file matches` notice. -/
theorem explicit_notice_only (pre post : List Ev) (off : Nat)
    (hpre : ∀ e ∈ pre, e.isBinaryData = false) :
    ∃ k tail, stdRun .convert (pre ++ .binaryData off :: post) =
      pre.filterMap toItem ++ List.replicate k .sep ++ tail ∧
      (tail = [] ∨ ∃ o, tail = [.binaryMatches o]) := by
  -- before the first report nothing is suppressed
  have hpre' : ∀ (st : St), st.binOff = none → ∀ evs,
      feed .convert st (pre ++ evs) = feed .convert
        { binOff := none, matchCount := (feed .convert st pre).matchCount,
          out := st.out ++ pre.filterMap toItem } evs := by
    induction pre with
    | nil =>
      intro st hb evs
      obtain ⟨bo, mc, out⟩ := st
      simp only at hb
      subst hb
      simp [feed]
    | cons ev pre ih =>
      intro st hb evs
      obtain ⟨bo, mc, out⟩ := st
      simp only at hb
      subst hb
      have hp2 : ∀ e ∈ pre, e.isBinaryData = false := fun e he => hpre e (by simp [he])
      cases ev with
      | matched o ln bs =>
        simp only [List.cons_append, feed, step, Option.isSome_none, Bool.and_false,
          Bool.false_eq_true, if_false]
        rw [ih hp2 _ rfl]
        simp [toItem]
      | context o ln bs =>
        simp only [List.cons_append, feed, step, Option.isSome_none, Bool.and_false,
          Bool.false_eq_true, if_false]
        rw [ih hp2 _ rfl]
        simp [toItem]
      | ctxBreak =>
        simp only [List.cons_append, feed, step]
        rw [ih hp2 _ rfl]
        simp [toItem]
      | binaryData o =>
        have := hpre (.binaryData o) (by simp)
        simp [Ev.isBinaryData] at this
  -- afterwards only separators are added
  have hpost : ∀ (evs : List Ev) (st : St), st.binOff.isSome = true →
      ∃ k, (feed .convert st evs).out = st.out ++ List.replicate k .sep ∧
        (feed .convert st evs).binOff.isSome = true := by
    intro evs
    induction evs with
    | nil => intro st hb; exact ⟨0, by simp [feed], by simpa [feed] using hb⟩
    | cons ev evs ih =>
      intro st hb
      cases ev with
      | matched o ln bs => exact ⟨0, by simp [feed, step, hb], by simp [feed, step, hb]⟩
      | context o ln bs =>
        obtain ⟨k, h1, h2⟩ := ih st hb
        exact ⟨k, by simpa [feed, step, hb] using h1, by simpa [feed, step, hb] using h2⟩
      | ctxBreak =>
        obtain ⟨k, h1, h2⟩ := ih { st with out := st.out ++ [.sep] } hb
        refine ⟨k + 1, ?_, by simpa [feed, step] using h2⟩
        simp only [feed, step]
        rw [h1]
        simp [List.replicate_succ]
      | binaryData o =>
        obtain ⟨k, h1, h2⟩ := ih { st with binOff := some o } rfl
        exact ⟨k, by simpa [feed, step] using h1, by simpa [feed, step] using h2⟩
  unfold stdRun
  rw [hpre' {} rfl]
  simp only [feed, step]
  obtain ⟨k, h1, h2⟩ := hpost post
    { binOff := some off, matchCount := (feed .convert {} pre).matchCount,
      out := ({} : St).out ++ pre.filterMap toItem } rfl
  generalize hfe : feed .convert _ post = fe at h1 h2
  unfold finish
  cases hbo : fe.binOff with
  | none => rw [hbo] at h2; simp at h2
  | some o =>
    simp only
    split
    · exact ⟨k, [], by rw [h1]; simp, Or.inl rfl⟩
    · exact ⟨k, [.binaryMatches o], by rw [h1]; simp, Or.inr ⟨o, rfl⟩⟩

/-! ### the second sentence of the property, at full strength (holds since fixes 8b6e9fb, ea82056) -/

/-- Explicit file / `--binary`: "no notice and no match only if no line of it matches" —
for the stream `evs` the searcher would deliver to a sink that never stops. -/
def NoticeIfMatch (evs : List Ev) : Prop :=
  (∃ e ∈ evs, e.isMatched = true) →
    ∃ it ∈ stdRun .convert evs, it.isMatchLine = true ∨ it.isNotice = true

/-- Traversed file, default mode: "cut off with a warning if lines were already printed". -/
def WarnIfPrinted (pre : List Ev) (off : Nat) : Prop :=
  (∃ it ∈ stdRun .quit (pre ++ [.binaryData off]), it.isLine = true) →
    ∃ w, (stdRun .quit (pre ++ [.binaryData off])).getLast? = some w ∧ w.isWarning = true

/-- **Explicit file or `--binary`: a notice or a match whenever a line matches** (full strength
since fix 8b6e9fb: a context line no longer ends the search before a match was seen). -/
theorem notice_if_match (evs : List Ev) : NoticeIfMatch evs := by
  unfold NoticeIfMatch stdRun
  intro hm
  exact convert_notice_aux evs {} (Or.inr hm) (by intro h; simp at h)

/-- **Traversed file, default mode: dropped, or cut off with the warning** — whatever was printed
for the file (a matching line, context / passthru lines, even a lone context separator), the output
ends with the warning; it says "after match" exactly if a matching line was delivered (full
strength since fix ea82056; before, the warning depended on the match count). -/
theorem implicit_cut_with_warning (pre : List Ev) (off : Nat)
    (hne : stdRun .quit (pre ++ [.binaryData off]) ≠ []) :
    (stdRun .quit (pre ++ [.binaryData off])).getLast? =
      some (if (∃ e ∈ pre, e.isMatched = true) then Item.stoppedWarning off else Item.stoppedNoMatch off) := by
  rw [implicit_dropped_or_cut] at hne ⊢
  have hmc := feed_quit_matchCount pre {}
  have hiff : (feed .quit {} pre).matchCount = 0 ↔ ¬ ∃ e ∈ pre, e.isMatched = true := by
    rw [hmc]
    have h0 : ({} : St).matchCount = 0 := rfl
    rw [h0, Nat.zero_add, List.length_eq_zero_iff, List.filter_eq_nil_iff]
    constructor
    · intro h ⟨e, he, hm⟩; exact h e he hm
    · intro h e he hm; exact h ⟨e, he, hm⟩
  by_cases hi : pre.filterMap toItem = []
  · simp [hi] at hne
  · simp only [hi, if_false, List.getLast?_append, List.getLast?_singleton, Option.some_or]
    by_cases hm : ∃ e ∈ pre, e.isMatched = true
    · have : ¬ (feed .quit {} pre).matchCount = 0 := fun h => hiff.mp h hm
      simp [this, hm]
    · have : (feed .quit {} pre).matchCount = 0 := hiff.mpr hm
      rw [if_pos this, if_neg hm]

theorem warn_if_printed (pre : List Ev) (off : Nat) : WarnIfPrinted pre off := by
  unfold WarnIfPrinted
  intro ⟨it, hit, _⟩
  have hne : stdRun .quit (pre ++ [.binaryData off]) ≠ [] := List.ne_nil_of_mem hit
  rw [implicit_cut_with_warning pre off hne]
  refine ⟨_, rfl, ?_⟩
  split <;> rfl

/-- The second sentence of C14 for every event stream. -/
def C14_full : Prop := (∀ evs, NoticeIfMatch evs) ∧ (∀ pre off, WarnIfPrinted pre off)

/-- It holds (it failed before ea82056: `--passthru`, or before-context whose matching line holds
the NUL — lines were printed, then silence). -/
theorem C14_full_holds : C14_full := ⟨notice_if_match, warn_if_printed⟩

/-- Non-vacuity: a `Convert` stream with a context line before the match still gets its notice; the
former counterexample of the `Quit` half (a lone context line, then the NUL) now ends with the
warning in its no-match wording; with a match it says "after match". -/
example :
    stdRun .convert [.binaryData 4, .context 0 1 [97, 10], .matched 5 3 [98, 32, 120, 10]] = [.binaryMatches 4] ∧
    stdRun .quit ([.context 0 1 [108, 49, 10]] ++ [.binaryData 8]) = [.contextLine 1 [108, 49, 10], .stoppedNoMatch 8] ∧
    stdRun .quit ([.matched 0 1 [120, 10]] ++ [.binaryData 9]) = [.matchLine 1 [120, 10], .stoppedWarning 9] ∧
    stdRun .quit ([] ++ [.binaryData 0]) = [] := by
  decide

/-- `-c` / `-l` in `Quit` mode: the official match count of a file with binary data is squashed
(the file counts as not matching); in `Convert` mode it is kept. -/
theorem summary_squash (o n : Nat) :
    summaryCount .quit (some o) n = 0 ∧ summaryCount .convert (some o) n = n ∧
    summaryCount .quit none n = n := by
  simp [summaryCount]

/-- Non-vacuity: a `Convert` stream in which a NUL-bearing line follows the report is `Guarded`,
its line is dropped, the earlier line and the notice are written. -/
example :
    stdRun .convert [.matched 0 1 [120, 10], .binaryData 5, .matched 3 2 [97, 0, 120, 10]] =
      [.matchLine 1 [120, 10], .binaryMatches 5] := by decide

end RgVerif.Props.C14
