import RgVerif.Lemmas.LineBufferFill
/-
C02 — results do not depend on how the input bytes reach the searcher.
Property theorems about the roll buffer (`line_buffer.rs`): for EVERY capacity (0 included), every
allocation policy, every reader script (fragmentation, `Interrupted` reads, which are retried), every sequence of
`fill`/`consume` calls.
-/
namespace RgVerif.Props.C02
open RgVerif RgVerif.LineBuffer

/-- **No byte lost, duplicated or reordered.**  After any sequence of `fill` / `consume` calls on
any reader, `buffer()` is exactly the window `[abs, abs + len)` of the input as seen through the
binary-detection mode (`view`; the input itself when detection is off). -/
theorem linebuffer_window (cfg : Config) (inp : Bytes) (script : List Step) (ops : List Op) :
    (run (LB.init cfg) ⟨inp, script, 0⟩ ops).1.buffer =
      window (view cfg inp) (run (LB.init cfg) ⟨inp, script, 0⟩ ops).1.abs
        (run (LB.init cfg) ⟨inp, script, 0⟩ ops).1.buffer.length := by
  obtain ⟨a, m, rest, h⟩ := run_inv cfg inp ops _ _ _ _ _ (Inv.init cfg inp script)
  exact h.window

/-- The C02 case proper (binary detection off): the window is a window of the raw input. -/
theorem linebuffer_window_raw (cfg : Config) (hb : cfg.binary = .none) (inp : Bytes)
    (script : List Step) (ops : List Op) :
    (run (LB.init cfg) ⟨inp, script, 0⟩ ops).1.buffer =
      window inp (run (LB.init cfg) ⟨inp, script, 0⟩ ops).1.abs
        (run (LB.init cfg) ⟨inp, script, 0⟩ ops).1.buffer.length := by
  have h := linebuffer_window cfg inp script ops
  simpa [view, hb] using h

/-- **`fill` makes progress and stops at a line boundary.**  In any reachable state a call of
`fill` terminates within its fuel (interrupted reads are retried); it fails only — and never
under `Eager` allocation — by the allocation limit; when it returns `Ok(more)` then `more` is
`!buffer().is_empty()`, the unsearchable tail `buf[last_lineterm..end]` holds no terminator, and
`buffer()` ends with the line terminator unless the reader hit EOF (for a reader that returns 0
only at EOF: no data is left) or `Quit` detection stopped the buffer. -/
theorem fill_progress (cfg : Config) (inp : Bytes) (script : List Step) (ops : List Op) :
    let st := run (LB.init cfg) ⟨inp, script, 0⟩ ops
    let res := st.1.fill st.2
    res.2.2 ≠ .fuel ∧
    (res.2.2 = .allocErr → cfg.alloc ≠ .eager) ∧
    res.1.abs = st.1.abs ∧
    ∀ more, res.2.2 = .ok more →
      more = (!res.1.buffer.isEmpty) ∧
      cfg.lineterm ∉ res.1.buf.drop res.1.last ∧
      ((0 < res.1.last ∧ res.1.buf[res.1.last - 1]? = some cfg.lineterm) ∨
       (res.1.last = res.1.buf.length ∧ (res.1.stopped ∨ (NoZero script → res.2.1.data = [])))) := by
  intro st res
  obtain ⟨a, m, rest, h⟩ := run_inv cfg inp ops _ _ _ _ _ (Inv.init cfg inp script)
  obtain ⟨m', rest', h1, h2, h3⟩ := fill_spec cfg inp st.1 st.2 a m rest h
  have hcfg : res.1.cfg = cfg := h1.hcfg
  refine ⟨?_, ?_, h2, ?_⟩
  · intro hr
    have h3' : FillPost cfg.lineterm res.1 res.2.1 (NoZero st.2.script) res.2.2 := h3
    rw [hr] at h3'
    exact h3'
  · intro hr hal
    have h3' : FillPost cfg.lineterm res.1 res.2.1 (NoZero st.2.script) res.2.2 := h3
    rw [hr] at h3'
    have : res.1.cfg.alloc ≠ .eager := h3'
    rw [hcfg] at this
    exact this hal
  · intro more hr
    have h3' : FillPost cfg.lineterm res.1 res.2.1 (NoZero st.2.script) res.2.2 := h3
    rw [hr] at h3'
    obtain ⟨p1, p2, p3⟩ := h3'
    refine ⟨p1, p3, ?_⟩
    cases p2 with
    | inr p2 => exact Or.inl p2
    | inl p2 =>
      refine Or.inr ⟨p2.1, ?_⟩
      cases p2.2 with
      | inl p4 => exact Or.inl p4
      | inr p4 =>
        refine Or.inr (fun hz => p4 ?_)
        exact run_noZero ops _ _ hz

/-- `consume(n)` drops exactly the first `n` bytes of `buffer()` and advances the offset by `n`. -/
theorem consume_preserves (s s' : LB) (n : Nat) (h : s.consume n = some s') :
    s'.buffer = s.buffer.drop n ∧ s'.abs = s.abs + n ∧ s'.buf = s.buf := by
  unfold LB.consume at h
  split at h
  · simp only [Option.some.injEq] at h
    subst h
    refine ⟨?_, rfl, rfl⟩
    simp [LB.buffer, List.drop_drop, Nat.add_comm]
  · simp at h

/-- `roll` keeps the unconsumed bytes `buf[pos..end]` and the offset; it is idempotent. -/
theorem roll_preserves (s : LB) (hp : s.pos ≤ s.buf.length) :
    s.roll.buf.drop s.roll.pos = s.buf.drop s.pos ∧ s.roll.abs = s.abs ∧ s.roll.roll = s.roll := by
  unfold LB.roll
  split
  · rename_i h
    simp [h]
  · rename_i h
    refine ⟨by simp, rfl, ?_⟩
    simp only
    split
    · rename_i h2
      simp at h2
      omega
    · simp

/-- Non-vacuity: capacity 1, two-byte lines, 1-byte reads with an `Interrupted` in between — the
buffer grows, fills, and is rolled; the window statement is about a run that does all of it. -/
example :
    let cfg : Config := ⟨1, 10, .eager, .none⟩
    let st := run (LB.init cfg) ⟨[97, 10, 98, 10], [.ret 1, .ret 1, .intr, .ret 1], 0⟩
      [.fill, .consume 2, .fill, .fill]
    st.1.buffer = [98, 10] ∧ st.1.abs = 2 := by decide

end RgVerif.Props.C02
