import RgVerif.Lemmas.LineBufferFill
import RgVerif.Lemmas.ReadByLineTop
import RgVerif.Lemmas.ReadByLineGTop
import RgVerif.Lemmas.ReadByLineCTop
import RgVerif.Lemmas.CoreFindContract
/-
C02 — results do not depend on how the input bytes reach the searcher.
Property theorems about the roll buffer (`line_buffer.rs`): for EVERY capacity (0 included), every
allocation policy, every reader script (fragmentation, `Interrupted` reads, which are retried), every sequence of
`fill`/`consume` calls.
-/
namespace RgVerif.Props.C02
open RgVerif RgVerif.LineBuffer RgVerif.Searcher

/-- **No byte lost, duplicated or reordered.**  After any sequence of `fill` / `consume` calls on
any reader, `buffer()` is exactly the window `[abs, abs + len)` of the input as seen through the
binary-detection mode (`view`; the input itself when detection is off). -/
theorem linebuffer_window (cfg : LineBuffer.Config) (inp : Bytes) (script : List Step) (ops : List Op) :
    (run (LB.init cfg) ⟨inp, script, 0⟩ ops).1.buffer =
      window (view cfg inp) (run (LB.init cfg) ⟨inp, script, 0⟩ ops).1.abs
        (run (LB.init cfg) ⟨inp, script, 0⟩ ops).1.buffer.length := by
  obtain ⟨a, m, rest, h⟩ := run_inv cfg inp ops _ _ _ _ _ (Inv.init cfg inp script)
  exact h.window

/-- The C02 case proper (binary detection off): the window is a window of the raw input. -/
theorem linebuffer_window_raw (cfg : LineBuffer.Config) (hb : cfg.binary = .none) (inp : Bytes)
    (script : List Step) (ops : List Op) :
    (run (LB.init cfg) ⟨inp, script, 0⟩ ops).1.buffer =
      window inp (run (LB.init cfg) ⟨inp, script, 0⟩ ops).1.abs
        (run (LB.init cfg) ⟨inp, script, 0⟩ ops).1.buffer.length := by
  have h := linebuffer_window cfg inp script ops
  simpa [view, hb] using h

/-- **`fill` makes progress and stops at a line boundary.**  In any reachable state a call of
`fill` terminates within its fuel (interrupted reads are retried); it fails only — and never
under `Eager` allocation — by the allocation limit; when it returns `Ok(more)` then `more` is
`!buffer().is_empty()`, the unsearchable tail `buf[last_lineterm..end]` holds no terminator, and
`buffer()` ends with the line terminator unless the reader hit EOF (for a reader that returns 0
only at EOF: no data is left) or `Quit` detection stopped the buffer. -/
theorem fill_progress (cfg : LineBuffer.Config) (inp : Bytes) (script : List Step) (ops : List Op) :
    let st := run (LB.init cfg) ⟨inp, script, 0⟩ ops
    let res := st.1.fill st.2
    res.2.2 ≠ .fuel ∧
    (res.2.2 = .allocErr → cfg.alloc ≠ .eager) ∧
    res.1.abs = st.1.abs ∧
    ∀ more, res.2.2 = .ok more →
      more = (!res.1.buffer.isEmpty) ∧
      cfg.lineterm ∉ res.1.buf.drop res.1.last ∧
      ((0 < res.1.last ∧ res.1.buf[res.1.last - 1]? = some cfg.lineterm) ∨
       (res.1.last = res.1.buf.length ∧ (res.1.stopped ∨ (NoZero script → res.2.1.data = [])))) := by
  intro st res
  obtain ⟨a, m, rest, h⟩ := run_inv cfg inp ops _ _ _ _ _ (Inv.init cfg inp script)
  obtain ⟨m', rest', h1, h2, h3, _⟩ := fill_spec cfg inp st.1 st.2 a m rest h
  have hcfg : res.1.cfg = cfg := h1.hcfg
  refine ⟨?_, ?_, h2, ?_⟩
  · intro hr
    have h3' : FillPost cfg.lineterm res.1 res.2.1 (NoZero st.2.script) res.2.2 := h3
    rw [hr] at h3'
    exact h3'
  · intro hr hal
    have h3' : FillPost cfg.lineterm res.1 res.2.1 (NoZero st.2.script) res.2.2 := h3
    rw [hr] at h3'
    have : res.1.cfg.alloc ≠ .eager := h3'
    rw [hcfg] at this
    exact this hal
  · intro more hr
    have h3' : FillPost cfg.lineterm res.1 res.2.1 (NoZero st.2.script) res.2.2 := h3
    rw [hr] at h3'
    obtain ⟨p1, p2, p3⟩ := h3'
    refine ⟨p1, p3, ?_⟩
    cases p2 with
    | inr p2 => exact Or.inl p2
    | inl p2 =>
      refine Or.inr ⟨p2.1, ?_⟩
      cases p2.2 with
      | inl p4 => exact Or.inl p4
      | inr p4 =>
        refine Or.inr (fun hz => p4 ?_)
        exact run_noZero ops _ _ hz

/-- `consume(n)` drops exactly the first `n` bytes of `buffer()` and advances the offset by `n`. -/
theorem consume_preserves (s s' : LB) (n : Nat) (h : s.consume n = some s') :
    s'.buffer = s.buffer.drop n ∧ s'.abs = s.abs + n ∧ s'.buf = s.buf := by
  unfold LB.consume at h
  split at h
  · simp only [Option.some.injEq] at h
    subst h
    refine ⟨?_, rfl, rfl⟩
    simp [LB.buffer, List.drop_drop, Nat.add_comm]
  · simp at h

/-- `roll` keeps the unconsumed bytes `buf[pos..end]` and the offset; it is idempotent. -/
theorem roll_preserves (s : LB) (hp : s.pos ≤ s.buf.length) :
    s.roll.buf.drop s.roll.pos = s.buf.drop s.pos ∧ s.roll.abs = s.abs ∧ s.roll.roll = s.roll := by
  unfold LB.roll
  split
  · rename_i h
    simp [h]
  · rename_i h
    refine ⟨by simp, rfl, ?_⟩
    simp only
    split
    · rename_i h2
      simp at h2
      omega
    · simp

/-! ### end to end: the reader strategy against the slice strategy -/

/-- **C02 on the slow path of `Core`, EVERY configuration with binary detection off** — with or
without context lines (`-A`, `-B`, `-C`, passthru), inversion, `stop_on_nonmatch`, line numbers on or
off, any terminator — for EVERY matcher (no contract needed on this path), every sink script
(continue / stop / error at any callback), every input, every read script (1-byte reads,
`Interrupted`, the decoder's BOM peek) and every initial capacity: `ReadByLine::run` makes exactly
the callbacks of `SliceByLine::run` (lines, context lines and context breaks, line numbers,
absolute offsets, the final byte count also after an early stop) and returns the same `Ok` / `Err`.
With context lines `Core::roll` keeps `max_context + 1` whole lines (or everything since
`last_line_visited`) and FORGETS `last_line_visited`; the proof (`Lemmas/CoreShift*.lean`,
`CoreFar`, `ReadByLineC*.lean`) relates the reader's core on each window to the slice searcher's
core on the whole input, position by position, and shows that the gap test, the before-context
start and the after-context counter come out the same once the forgotten value lies at least
`max_context + 1` whole lines back. -/
theorem C02 (cfg : Searcher.Config) (m : MatcherI) (σ : Script) (hbin : cfg.binary = .none)
    (hslow : isLineByLineFast cfg m (Core.new cfg true) = false)
    (lbcfg : LineBuffer.Config) (hlt : lbcfg.lineterm = cfg.lineTerm.asByte) (hb : lbcfg.binary = .none)
    (hal : lbcfg.alloc = .eager) (rdr : Reader) (hz : NoZero rdr.script) :
    (readByLine cfg m σ lbcfg rdr).events = (sliceByLine cfg m σ rdr.data).events ∧
      (readByLine cfg m σ lbcfg rdr).result = (sliceByLine cfg m σ rdr.data).result :=
  readByLine_eq_sliceByLine_all m σ hbin hslow lbcfg hlt hb hal rdr hz

/-- **C02 at full strength, through the strategy selection** (slow path of `Core`): for every
configuration with binary detection off, every matcher, every sink script, every input, every read
script obeying the `Read` contract, every `verif_buffer_capacity`, `search_reader` (pass-through
decoder with its BOM peek, roll buffer built by `Config::line_buffer`) delivers the event stream of
`search_slice`. (The fast path additionally needs the matcher contract `LineSafe` and is false as
stated when the sink stops the search: finding F10b.) -/
theorem C02_full (cfg : Searcher.Config) (m : MatcherI) (σ : Script) (inp : Bytes) (script : List Step)
    (cap : Option Nat) (hbin : cfg.binary = .none) (hml : cfg.multiLine = false)
    (hslow : isLineByLineFast cfg m (Core.new cfg true) = false) (hz : NoZero script) :
    (searchReader cfg m σ none cap ⟨inp, script, 0⟩).events = (searchSlice cfg m σ inp).events := by
  have hmm : multiLineWithMatcher cfg m = false := by simp [multiLineWithMatcher, hml]
  unfold searchReader searchSlice
  simp only [hmm, Bool.false_eq_true, if_false]
  have := C02 cfg m σ hbin hslow (lineBufferConfig cfg none cap) rfl
    (by simp [lineBufferConfig, hbin, BinaryDetection.toLB]) (by simp [lineBufferConfig])
    (⟨inp, script, 0⟩ : Reader).withBomPeek (withBomPeek_noZero _ hz)
  exact this.1

/-- `C02_full` for the value returned: `search_reader` returns `Ok` / `Err` exactly when `search_slice` does
(same hypotheses; the sink script may stop or fail at any callback). -/
theorem C02_full_result (cfg : Searcher.Config) (m : MatcherI) (σ : Script) (inp : Bytes) (script : List Step)
    (cap : Option Nat) (hbin : cfg.binary = .none) (hml : cfg.multiLine = false)
    (hslow : isLineByLineFast cfg m (Core.new cfg true) = false) (hz : NoZero script) :
    (searchReader cfg m σ none cap ⟨inp, script, 0⟩).result = (searchSlice cfg m σ inp).result := by
  have hmm : multiLineWithMatcher cfg m = false := by simp [multiLineWithMatcher, hml]
  unfold searchReader searchSlice
  simp only [hmm, Bool.false_eq_true, if_false]
  have := C02 cfg m σ hbin hslow (lineBufferConfig cfg none cap) rfl
    (by simp [lineBufferConfig, hbin, BinaryDetection.toLB]) (by simp [lineBufferConfig])
    (⟨inp, script, 0⟩ : Reader).withBomPeek (withBomPeek_noZero _ hz)
  exact this.2

/-- `Core::is_line_by_line_fast` since /repo a2e984b: with a terminator byte other than `\n` (NUL
under `--null-data`, any `LineTerminator::byte`) the slow path is taken WHATEVER the matcher
announces (`line_terminator()`, `non_matching_bytes()`). -/
theorem nonlf_terminator_is_slow (cfg : Searcher.Config) (m : MatcherI) (st : Core)
    (hlt : cfg.lineTerm.asByte ≠ 10) : isLineByLineFast cfg m st = false := by
  unfold isLineByLineFast
  have : (cfg.lineTerm.asByte != 10) = true := by simpa using hlt
  simp [this]

/-- **C02 for every terminator other than LF, unconditionally in the matcher** (closes findings F17,
both routes, and F17b): no `LineSafe` hypothesis, no assumption on what the matcher announces — for
every configuration with binary detection off, EVERY matcher, sink script, input, read script and
capacity, `ReadByLine::run` makes exactly the callbacks of `SliceByLine::run`. Before a2e984b this
was false: a matcher announcing the fast path (as `RegexMatcher` does through `non_matching_bytes`
for `-w`, `-x`, `\A`, or under `-U`) was asked about whole buffers although its anchors are LF-based. -/
theorem C02_nonlf_terminator (cfg : Searcher.Config) (m : MatcherI) (σ : Script) (hbin : cfg.binary = .none)
    (hnl : cfg.lineTerm.asByte ≠ 10)
    (lbcfg : LineBuffer.Config) (hlt : lbcfg.lineterm = cfg.lineTerm.asByte) (hb : lbcfg.binary = .none)
    (hal : lbcfg.alloc = .eager) (rdr : Reader) (hz : NoZero rdr.script) :
    (readByLine cfg m σ lbcfg rdr).events = (sliceByLine cfg m σ rdr.data).events ∧
      (readByLine cfg m σ lbcfg rdr).result = (sliceByLine cfg m σ rdr.data).result :=
  C02 cfg m σ hbin (nonlf_terminator_is_slow cfg m _ hnl) lbcfg hlt hb hal rdr hz

/-- the same through the strategy selection (`search_reader` vs `search_slice`) -/
theorem C02_full_nonlf_terminator (cfg : Searcher.Config) (m : MatcherI) (σ : Script) (inp : Bytes)
    (script : List Step) (cap : Option Nat) (hbin : cfg.binary = .none) (hml : cfg.multiLine = false)
    (hnl : cfg.lineTerm.asByte ≠ 10) (hz : NoZero script) :
    (searchReader cfg m σ none cap ⟨inp, script, 0⟩).events = (searchSlice cfg m σ inp).events :=
  C02_full cfg m σ inp script cap hbin hml (nonlf_terminator_is_slow cfg m _ hnl) hz

/-- ... and for a `multi_line(true)` request the searcher downgrades to line mode (F17's first route,
`rg -U --null-data` with a pattern that cannot match NUL): whatever matcher made
`multi_line_with_matcher` answer false, the downgraded search is the slow line-by-line search in
both strategies. -/
theorem C02_nonlf_terminator_downgraded (cfg : Searcher.Config) (m : MatcherI) (σ : Script) (inp : Bytes)
    (script : List Step) (cap : Option Nat) (hbin : cfg.binary = .none)
    (hmm : multiLineWithMatcher cfg m = false)
    (hnl : cfg.lineTerm.asByte ≠ 10) (hz : NoZero script) :
    (searchReader cfg m σ none cap ⟨inp, script, 0⟩).events = (searchSlice cfg m σ inp).events := by
  unfold searchReader searchSlice
  simp only [hmm, Bool.false_eq_true, if_false]
  have := C02 cfg m σ hbin (nonlf_terminator_is_slow cfg m _ hnl) (lineBufferConfig cfg none cap) rfl
    (by simp [lineBufferConfig, hbin, BinaryDetection.toLB]) (by simp [lineBufferConfig])
    (⟨inp, script, 0⟩ : Reader).withBomPeek (withBomPeek_noZero _ hz)
  exact this.1

/-- **C02 under a heap limit** (`--dfa-size-limit`-independent `heap_limit` of the searcher: the roll
buffer may not grow beyond `limit`): the same statement as `C02_full` for EVERY allocation policy
`Config::line_buffer` can build -- either `search_reader` makes exactly the callbacks of
`search_slice` and returns the same `Ok` / `Err`, or (only with a heap limit) it fails with the
allocation error after a PREFIX of those callbacks: nothing is reordered, altered or invented before
the error. -/
theorem C02_heap_limit (cfg : Searcher.Config) (m : MatcherI) (σ : Script) (inp : Bytes) (script : List Step)
    (heapLimit cap : Option Nat) (hbin : cfg.binary = .none) (hml : cfg.multiLine = false)
    (hslow : isLineByLineFast cfg m (Core.new cfg true) = false) (hz : NoZero script) :
    ((searchReader cfg m σ heapLimit cap ⟨inp, script, 0⟩).events = (searchSlice cfg m σ inp).events ∧
      (searchReader cfg m σ heapLimit cap ⟨inp, script, 0⟩).result = (searchSlice cfg m σ inp).result) ∨
    (heapLimit.isSome = true ∧ (searchReader cfg m σ heapLimit cap ⟨inp, script, 0⟩).result = .err ∧
      ∃ rest, (searchSlice cfg m σ inp).events = (searchReader cfg m σ heapLimit cap ⟨inp, script, 0⟩).events ++ rest) := by
  have hmm : multiLineWithMatcher cfg m = false := by simp [multiLineWithMatcher, hml]
  unfold searchReader searchSlice
  simp only [hmm, Bool.false_eq_true, if_false]
  have hterm : (lineBufferConfig cfg heapLimit cap).lineterm = cfg.lineTerm.asByte := by
    unfold lineBufferConfig
    cases heapLimit with
    | none => rfl
    | some l => dsimp only
  have hb : (lineBufferConfig cfg heapLimit cap).binary = .none := by
    unfold lineBufferConfig
    cases heapLimit with
    | none => simp [hbin, BinaryDetection.toLB]
    | some l => dsimp only; simp [hbin, BinaryDetection.toLB]
  have halloc : (lineBufferConfig cfg heapLimit cap).alloc ≠ .eager → heapLimit.isSome = true := by
    intro h
    cases heapLimit with
    | none => exact absurd (by simp [lineBufferConfig]) h
    | some l => rfl
  rcases readByLine_vs_sliceByLine_alloc m σ hbin hslow (lineBufferConfig cfg heapLimit cap) hterm hb
    (⟨inp, script, 0⟩ : Reader).withBomPeek (withBomPeek_noZero _ hz) with h | h
  · exact Or.inl h
  · exact Or.inr ⟨halloc h.1, h.2.1, h.2.2⟩

/-- **C02 on the FAST path of `Core`, under the matcher contract** (`LineSafe`, searcher-core's
`Lemmas/SearcherFind.lean` / `Spec/LineSafe.lean`: the answers of `find_candidate_line` are sound
for the lines of the buffer -- what C01/C11 establish for the regex matcher; its former exceptions
F1/F2/F24 are repaired, /repo 4165f41, and the harness asks the certificate of the real matcher
wherever the fast path is taken): if the matcher is line safe on every window of the input (the input
itself included), then for every configuration with detection off -- contexts, inversion,
`stop_on_nonmatch`, line numbers -- every read script and capacity, and every sink script that never
answers "stop", `ReadByLine::run` makes exactly the callbacks of `SliceByLine::run` and returns the
same `Ok` / `Err`, whatever mix of `match_by_line_fast` / `match_by_line_fast_invert` /
`match_by_line_slow` calls the two strategies make.  The sink answer "stop" is the stated
exception: then the two agree on every callback except the byte count of `finish` (finding F10b,
`Core.pos` is not the end of the stopping line on the fast path).  Proof: call by call the fast path
equals the slow path (`Lemmas/CoreFastSlow.lean`: lazy after-context = per-line after-context, runs
of inverted matches, frames for `pos` / `has_matched`), lifted to both strategies
(`Lemmas/ReadByLineFast.lean`), then `C02`. -/
theorem C02_fast (cfg : Searcher.Config) (m : MatcherI) (σ : Script) (hbin : cfg.binary = .none)
    (lbcfg : LineBuffer.Config) (hlt : lbcfg.lineterm = cfg.lineTerm.asByte) (hb : lbcfg.binary = .none)
    (hal : lbcfg.alloc = .eager) (rdr : Reader)
    (hsafe : ∀ a n, Searcher.LineSafe cfg m (window rdr.data a n) (linesOf cfg m (window rdr.data a n)))
    (hns : ∀ i, σ i ≠ .stop) (hz : NoZero rdr.script) :
    (readByLine cfg m σ lbcfg rdr).events = (sliceByLine cfg m σ rdr.data).events ∧
      (readByLine cfg m σ lbcfg rdr).result = (sliceByLine cfg m σ rdr.data).result :=
  readByLine_eq_sliceByLine_lineSafe m σ hbin lbcfg hlt hb hal rdr hsafe hns hz

/-- **The stated exception, made exact (finding F10b)**: for EVERY sink script -- stop answers
included -- under the same matcher contract the two strategies return the same result and make the
same callbacks except for the byte count that `finish` reports. -/
theorem C02_fast_any_sink (cfg : Searcher.Config) (m : MatcherI) (σ : Script) (hbin : cfg.binary = .none)
    (lbcfg : LineBuffer.Config) (hlt : lbcfg.lineterm = cfg.lineTerm.asByte) (hb : lbcfg.binary = .none)
    (hal : lbcfg.alloc = .eager) (rdr : Reader)
    (hsafe : ∀ a n, Searcher.LineSafe cfg m (window rdr.data a n) (linesOf cfg m (window rdr.data a n)))
    (hz : NoZero rdr.script) :
    (readByLine cfg m σ lbcfg rdr).events.map Event.noCount = (sliceByLine cfg m σ rdr.data).events.map Event.noCount ∧
      (readByLine cfg m σ lbcfg rdr).result = (sliceByLine cfg m σ rdr.data).result :=
  readByLine_eq_sliceByLine_lineSafe_any m σ hbin lbcfg hlt hb hal rdr hsafe hz

/-- `C02_fast` through the strategy selection of `search_reader` / `search_slice`. -/
theorem C02_fast_search (cfg : Searcher.Config) (m : MatcherI) (σ : Script) (inp : Bytes) (script : List Step)
    (cap : Option Nat) (hbin : cfg.binary = .none) (hml : cfg.multiLine = false)
    (hsafe : ∀ a n, Searcher.LineSafe cfg m (window inp a n) (linesOf cfg m (window inp a n)))
    (hns : ∀ i, σ i ≠ .stop) (hz : NoZero script) :
    (searchReader cfg m σ none cap ⟨inp, script, 0⟩).events = (searchSlice cfg m σ inp).events := by
  have hmm : multiLineWithMatcher cfg m = false := by simp [multiLineWithMatcher, hml]
  unfold searchReader searchSlice
  simp only [hmm, Bool.false_eq_true, if_false]
  have := C02_fast cfg m σ hbin (lineBufferConfig cfg none cap) rfl
    (by simp [lineBufferConfig, hbin, BinaryDetection.toLB]) (by simp [lineBufferConfig])
    (⟨inp, script, 0⟩ : Reader).withBomPeek hsafe hns (withBomPeek_noZero _ hz)
  exact this.1

/-- **C02 without context lines** (the closed-form route, kept: it also gives the event stream as
a function of the lines, `specRun`): for every configuration without context lines (`-A`, `-B`, `-C` = 0;
passthru, inversion, `stop_on_nonmatch`, line numbers on/off, any terminator), on the slow path,
detection off, eager allocation — for EVERY sink script (continue / stop / error at any
callback), input, read script (1-byte reads, `Interrupted`, the decoder's BOM peek) and initial
capacity, the reader strategy delivers exactly the slice strategy's callbacks — matched /
passthru lines, line numbers, absolute offsets, the final byte count also after an early stop
(fix 9a1d13a) — and returns the same `Ok` / `Err`. -/
theorem C02_partial (cfg : Searcher.Config) (m : MatcherI) (σ : Script) (h : NoCtx' cfg)
    (hslow : isLineByLineFast cfg m (Core.new cfg true) = false)
    (lbcfg : LineBuffer.Config) (hlt : lbcfg.lineterm = cfg.lineTerm.asByte) (hb : lbcfg.binary = .none)
    (hal : lbcfg.alloc = .eager) (rdr : Reader) (hz : NoZero rdr.script) :
    (readByLine cfg m σ lbcfg rdr).events = (sliceByLine cfg m σ rdr.data).events ∧
      (readByLine cfg m σ lbcfg rdr).result = (sliceByLine cfg m σ rdr.data).result :=
  readByLine_eq_sliceByLine_G m σ h hslow lbcfg hlt hb hal rdr hz

/-- The same through the strategy selection of `search_reader` / `search_slice` (roll buffer built
by `Config::line_buffer` with any `verif_buffer_capacity`, pass-through decoder with its BOM peek). -/
theorem C02_partial_search (cfg : Searcher.Config) (m : MatcherI) (σ : Script) (h : NoCtx' cfg)
    (hml : cfg.multiLine = false) (hslow : isLineByLineFast cfg m (Core.new cfg true) = false)
    (inp : Bytes) (script : List Step) (cap : Option Nat)
    (hz : NoZero (⟨inp, script, 0⟩ : Reader).withBomPeek.script) :
    (searchReader cfg m σ none cap ⟨inp, script, 0⟩).events = (searchSlice cfg m σ inp).events := by
  have hmm : multiLineWithMatcher cfg m = false := by simp [multiLineWithMatcher, hml]
  unfold searchReader searchSlice
  simp only [hmm, Bool.false_eq_true, if_false]
  have := C02_partial cfg m σ h hslow (lineBufferConfig cfg none cap) rfl
    (by simp [lineBufferConfig, h.hbin, BinaryDetection.toLB]) (by simp [lineBufferConfig])
    (⟨inp, script, 0⟩ : Reader).withBomPeek hz
  exact this.1

/-- **`multi_line(true)` for a pattern that cannot match the terminator changes nothing** (the
searcher downgrades to line mode) — proved in the setting of `C02_partial`. -/
theorem C02_multiline_downgrade (cfg : Searcher.Config) (m : MatcherI) (h : NoCtx cfg)
    (hslow : isLineByLineFast cfg m (Core.new cfg true) = false)
    (hdown : multiLineWithMatcher { cfg with multiLine := true } m = false) (inp : Bytes) :
    (searchSlice { cfg with multiLine := true } m allCont inp).events
      = (searchSlice { cfg with multiLine := false } m allCont inp).events :=
  searchSlice_ml_downgrade m h hslow hdown inp

/-- Non-vacuity of `C02` WITH context lines (`-B1 -A1`): capacity 1, 1-byte reads with an
interrupted one; the reader rolls many times, keeps two lines of context at each roll, and makes
the same callbacks as the slice searcher — before/after context, the context break, line numbers. -/
example :
    let cfg : Searcher.Config := { beforeContext := 1, afterContext := 1 }
    let m : MatcherI := MatcherI.ofFindAt (fun h at_ =>
      ((h.drop at_).findIdx? (· == 120)).map fun i => ⟨at_ + i, at_ + i + 1⟩)
    cfg.binary = .none ∧ isLineByLineFast cfg m (Core.new cfg true) = false ∧
      (readByLine cfg m allCont ⟨1, 10, .eager, .none⟩
        ⟨[97, 10, 98, 10, 99, 10, 120, 10, 100, 10, 101, 10, 102, 10, 120, 10], [.ret 1, .intr, .ret 1], 0⟩).events
        = [.begin, .context .before (some 3) 4 [99, 10], .matched (some 4) 6 [120, 10],
           .context .after (some 5) 8 [100, 10], .contextBreak, .context .before (some 7) 12 [102, 10],
           .matched (some 8) 14 [120, 10], .finish 16 none] := by
  refine ⟨rfl, by decide, by decide⟩

/-- Non-vacuity of `C02_nonlf_terminator` (the F17 situation): NUL-terminated records, a matcher
that is haystack-anchored (`\\Aa`: an `a` only at the very start of what it is shown), reports no line
terminator and claims it never matches NUL -- as `RegexMatcher` does for `-w` / `\\A` patterns. The
slow path is taken; reader (capacity 1, 1-byte reads) and slice searcher both find the record `a`
behind the record `b`, which a whole-buffer search from a window starting at `b` would miss. -/
example :
    let cfg : Searcher.Config := { lineTerm := .byte 0 }
    let m : MatcherI := { MatcherI.ofFindAt (fun h at_ =>
      if at_ == 0 && h.head? == some 97 then some ⟨0, 1⟩ else none) with
        lineTerminator := none, nonMatchingBytes := some (fun b => b == 0) }
    let inp : Bytes := [98, 0, 97, 0]
    cfg.lineTerm.asByte ≠ 10 ∧ isLineByLineFast cfg m (Core.new cfg true) = false ∧
      (readByLine cfg m allCont ⟨1, 0, .eager, .none⟩ ⟨inp, [.ret 1], 0⟩).events
        = (sliceByLine cfg m allCont inp).events ∧
      (sliceByLine cfg m allCont inp).events = [.begin, .matched (some 2) 2 [97, 0], .finish 4 none] := by
  refine ⟨by decide, by decide, by decide, by decide⟩

/-- Non-vacuity of `C02_heap_limit`: heap limit 4 (capacity 4, no growth), `-A1`: the 7-byte line does
not fit, the reader fails with the allocation error after `begin`, the match and its after-context
line -- a proper prefix of what the slice searcher delivers. -/
example :
    let cfg : Searcher.Config := { afterContext := 1 }
    let m : MatcherI := MatcherI.ofFindAt (fun h at_ =>
      ((h.drop at_).findIdx? (· == 120)).map fun i => ⟨at_ + i, at_ + i + 1⟩)
    let inp : Bytes := [120, 10, 97, 10, 98, 98, 98, 98, 98, 98, 10, 120, 10]
    (searchReader cfg m allCont (some 4) none ⟨inp, [.ret 1], 0⟩).result = .err ∧
      (searchReader cfg m allCont (some 4) none ⟨inp, [.ret 1], 0⟩).events
        = [.begin, .matched (some 1) 0 [120, 10], .context .after (some 2) 2 [97, 10]] ∧
      (searchSlice cfg m allCont inp).events
        = [.begin, .matched (some 1) 0 [120, 10], .context .after (some 2) 2 [97, 10], .contextBreak,
           .matched (some 4) 11 [120, 10], .finish 13 none] := by
  refine ⟨by decide, by decide, by decide⟩

/-- Non-vacuity of `C02_fast`: a matcher that announces the searcher's terminator (so `Core` takes the
fast path), `-A1 -B1`, capacity 1, 1-byte reads: the fast loop finds the two matching lines across
many rolls, delivers the before / after context lazily, and the reader's callbacks are those of the
slice searcher. -/
example :
    let cfg : Searcher.Config := { beforeContext := 1, afterContext := 1 }
    let m : MatcherI := { MatcherI.ofFindAt (fun h at_ =>
      ((h.drop at_).findIdx? (· == 120)).map fun i => ⟨at_ + i, at_ + i + 1⟩) with lineTerminator := some (.byte 10) }
    let inp : Bytes := [97, 10, 98, 10, 99, 10, 120, 10, 100, 10, 101, 10, 102, 10, 120, 10]
    isLineByLineFast cfg m (Core.new cfg true) = true ∧
      (readByLine cfg m allCont ⟨1, 10, .eager, .none⟩ ⟨inp, [.ret 1, .intr, .ret 1], 0⟩).events
        = (sliceByLine cfg m allCont inp).events ∧
      (sliceByLine cfg m allCont inp).events
        = [.begin, .context .before (some 3) 4 [99, 10], .matched (some 4) 6 [120, 10],
           .context .after (some 5) 8 [100, 10], .contextBreak, .context .before (some 7) 12 [102, 10],
           .matched (some 8) 14 [120, 10], .finish 16 none] := by
  refine ⟨by decide, by decide, by decide⟩

/-- Non-vacuity of `C02_partial`: passthru, NUL-free text with LF inside... a capacity-1 buffer,
1-byte reads with an interrupted one, a matcher that selects lines containing `x`: the guard holds
and the run rolls and grows the buffer several times. -/
example :
    let cfg : Searcher.Config := { passthru := true }
    let m : MatcherI := MatcherI.ofFindAt (fun h at_ =>
      ((h.drop at_).findIdx? (· == 120)).map fun i => ⟨at_ + i, at_ + i + 1⟩)
    NoCtx' cfg ∧ isLineByLineFast cfg m (Core.new cfg true) = false ∧
      (readByLine cfg m allCont ⟨1, 10, .eager, .none⟩ ⟨[97, 10, 120, 10, 98], [.ret 1, .intr, .ret 1], 0⟩).events
        = [.begin, .context .other (some 1) 0 [97, 10], .matched (some 2) 2 [120, 10],
           .context .other (some 3) 4 [98], .finish 5 none] := by
  refine ⟨⟨rfl, rfl, rfl⟩, by decide, by decide⟩

/-- Non-vacuity of `C02_partial` with an early stop: `stop_on_nonmatch`, capacity 1, 1-byte reads:
the reader stops at the first non-matching line after a match and reports 4 bytes searched (the
end of that line), like the slice strategy; and a sink that says stop at its second callback. -/
example :
    let cfg : Searcher.Config := { stopOnNonmatch := true }
    let m : MatcherI := MatcherI.ofFindAt (fun h at_ =>
      ((h.drop at_).findIdx? (· == 120)).map fun i => ⟨at_ + i, at_ + i + 1⟩)
    NoCtx' cfg ∧ isLineByLineFast cfg m (Core.new cfg true) = false ∧
      (readByLine cfg m allCont ⟨1, 10, .eager, .none⟩ ⟨[120, 10, 97, 10, 120, 10], [.ret 1, .ret 1], 0⟩).events
        = [.begin, .matched (some 1) 0 [120, 10], .finish 4 none] ∧
      (readByLine cfg m (fun i => if i == 1 then .stop else .cont) ⟨1, 10, .eager, .none⟩
          ⟨[120, 10, 97, 10, 120, 10], [.ret 1, .ret 1], 0⟩).events
        = [.begin, .matched (some 1) 0 [120, 10], .finish 2 none] := by
  refine ⟨⟨rfl, rfl, rfl⟩, by decide, by decide, by decide⟩

/-- Non-vacuity: capacity 1, two-byte lines, 1-byte reads with an `Interrupted` in between — the
buffer grows, fills, and is rolled; the window statement is about a run that does all of it. -/
example :
    let cfg : LineBuffer.Config := ⟨1, 10, .eager, .none⟩
    let st := run (LB.init cfg) ⟨[97, 10, 98, 10], [.ret 1, .ret 1, .intr, .ret 1], 0⟩
      [.fill, .consume 2, .fill, .fill]
    st.1.buffer = [98, 10] ∧ st.1.abs = 2 := by decide

end RgVerif.Props.C02
