import RgVerif.Lemmas.DecodeUtf8
import RgVerif.Lemmas.DecodeSjis
/-
C17 — transcoded input is searched as its UTF-8 equivalent.
Model: `RgVerif.Decode` (searcher/mod.rs transcoding detour, hiargs encoding mode, encoding_rs_io's
DecodeReaderBytes as configured by ripgrep, a streaming UTF-16 decoder); contract: `RgVerif.Utf16Spec`.
-/
namespace RgVerif.Props.C17
open RgVerif RgVerif.Decode RgVerif.Utf16Spec

/-! ### Read fragmentation does not matter -/

/-- **Every fragmentation gives the same searched bytes**: however the underlying reader cuts the input
into pieces (inside a code unit, inside a surrogate pair, inside the mark) and however the 8 KiB scratch
buffer re-cuts them, the searcher reads exactly what it reads when the whole input arrives at once —
for every configuration and every family of decoders that are byte-level state machines. -/
theorem decode_chunk_independent (c : Cfg) (M : Enc → Machine) (chunks : List Bytes) :
    readerOutput c M chunks = readerOutput c M [chunks.flatten] := by
  simp only [readerOutput, peek3_eq, List.flatten_cons, List.flatten_nil, List.append_nil]
  generalize plan c (List.take 3 chunks.flatten) = p
  cases p.decoder with
  | none => simp [dropBytes_flatten]
  | some e =>
    simp only
    rw [decode_flatten, decode_flatten (chunks := List.flatMap _ (dropBytes p.strip [chunks.flatten]))]
    simp [flatMap_splitCap_flatten, dropBytes_flatten]

/-- The streaming UTF-16 decoder alone: any fragmentation equals the whole-string specification
(surrogate pairs joined, lone surrogates and a truncated end replaced by U+FFFD, its own mark removed). -/
theorem decodeAll_spec (be : Bool) (chunks : List Bytes) :
    (utf16Machine be).decode chunks = decode16 be chunks.flatten := by
  rw [decode_flatten, utf16_decode_eq]

/-- The modelled UTF-16 decoders implement the reference transcoder. -/
theorem utf16_implements (other : Nat → Bytes → Bytes) (be : Bool) :
    Implements other (encOf be) (utf16Machine be) := by
  intro bs hb
  rw [utf16_decode_eq, decode16_ownMark be bs hb]
  cases be <;> simp [transcode, encOf, ownMarkLen]

/-- The streaming UTF-8 decoder (pending incomplete sequence, lead-specific bounds for the second byte, one
U+FFFD per maximal malformed subpart, the offending byte looked at afresh, own mark removed) implements
the whole-string reference `transcode8`. -/
theorem utf8_implements (other : Nat → Bytes → Bytes) : Implements other .utf8 utf8Machine := by
  intro bs _
  rw [utf8_decode_eq]
  simp [transcode, ownMarkLen]

/-- A single-byte table decoder (windows-1252 = the labels latin1 / iso-8859-1 / ascii, …) implements its
table. -/
theorem table_implements (tables : Nat → Nat → Nat) (id : Nat) :
    Implements (fun id bs => bs.flatMap fun b => utf8Encode (tables id b)) (.other id) (tableMachine (tables id)) := by
  intro bs _
  rw [table_decode_eq]
  simp [transcode, ownMark]

/-! ### Memory maps and slices take the same detour -/

/-- `search_slice` (mmap / in-memory input) searches the same bytes as `search_reader` on that input. -/
theorem slice_eq_reader (c : Cfg) (M : Enc → Machine) (slice : Bytes) :
    sliceSearched c M slice = readerOutput c M [slice] := by
  unfold sliceSearched sliceNeedsTranscoding sliceHasBom
  split
  · rfl
  · rename_i h
    simp only [Bool.or_eq_true, Bool.and_eq_true, not_or, not_and, Bool.not_eq_true] at h
    obtain ⟨hl, hb⟩ := h
    have hlabel : c.label = none := by cases hc : c.label <;> simp_all
    simp only [readerOutput, peek3_eq, List.flatten_cons, List.flatten_nil, List.append_nil, plan, hlabel]
    cases hs : c.bomSniffing with
    | false => simp [dropBytes]
    | true =>
      have hb' := hb hs
      have : bomOf (List.take 3 slice) = none := by
        rw [bomOf_take3]
        cases hx : bomOf slice <;> simp_all
      simp [this, dropBytes]

/-! ### `--encoding none` -/

/-- With `--encoding none` the raw bytes are searched untouched, mark included — reader and slice path,
any fragmentation. -/
theorem none_is_identity (M : Enc → Machine) (chunks : List Bytes) :
    readerOutput (cfgOfMode .disabled) M chunks = chunks.flatten ∧
    sliceSearched (cfgOfMode .disabled) M chunks.flatten = chunks.flatten ∧
    searched (fun _ bs => bs) (cfgOfMode .disabled) chunks.flatten = chunks.flatten := by
  refine ⟨?_, ?_, rfl⟩
  · simp [readerOutput, cfgOfMode, plan, dropBytes]
  · simp [sliceSearched, sliceNeedsTranscoding, cfgOfMode]

/-- `plan` is encoding_rs_io's `detect` under the flags the searcher fixes (`utf8_passthru(true)`,
`bom_override(true)`; both source-anchored constants). -/
theorem plan_is_ripgrep_config (c : Cfg) (first3 : Bytes) :
    plan c first3 = planGeneral utf8Passthru bomOverride c first3 := by
  unfold plan planGeneral
  cases c.bomSniffing <;> simp <;> (split <;> simp_all)

/-! ### A mark overrides a label -/

/-- Full statement: whatever the label, a leading mark selects the decoder. -/
def bom_overrides_label_full : Prop :=
  ∀ (label : Option Enc) (bs : Bytes) (e : Enc) (n : Nat), bomOf bs = some (e, n) →
    (plan ⟨label, true⟩ (bs.take 3)).decoder = (plan ⟨none, true⟩ (bs.take 3)).decoder

/-- It fails on the current tree for the UTF-8 mark: `detect` returns early under `utf8_passthru` and the
label's decoder stays in place — `rg -E latin1 é` does not find `é` in a file that starts with a UTF-8 mark
(known finding `utf8-bom-does-not-override-label`). -/
theorem bom_overrides_label_full_fails : ¬ bom_overrides_label_full := by
  intro h
  have := h (some .utf16le) [0xEF, 0xBB, 0xBF, 0x61] .utf8 3 rfl
  revert this
  decide

/-- **Proved part**: a UTF-16 mark (either byte order) overrides every label: the decoder is the mark's,
and the mark is removed. -/
theorem bom_overrides_label (label : Option Enc) (bs : Bytes) (e : Enc) (n : Nat)
    (h : bomOf bs = some (e, n)) (he : e ≠ .utf8) :
    plan ⟨label, true⟩ (bs.take 3) = ⟨n, some e⟩ := by
  unfold bomOf at h
  split at h
  · injection h with h; injection h with h1 h2; exact absurd h1.symm he
  · injection h with h; injection h with h1 h2; subst h1 h2
    rename_i rest; cases rest <;> simp [plan, bomOf]
  · injection h with h; injection h with h1 h2; subst h1 h2
    rename_i rest; cases rest <;> simp [plan, bomOf]
  · cases h

/-- Non-vacuity. -/
example : bomOf [0xFE, 0xFF, 0x00, 0x61] = some (.utf16be, 2) ∧ Enc.utf16be ≠ .utf8 := by decide

/-! ### The searched bytes are the UTF-8 equivalent -/

/-- Full statement: for every configuration, input and fragmentation the searcher reads the contract's
UTF-8 equivalent. -/
def C17_full : Prop :=
  ∀ (other : Nat → Bytes → Bytes) (m8 : Machine) (mo : Nat → Machine),
    Implements other .utf8 m8 → (∀ id, Implements other (.other id) (mo id)) →
    ∀ (c : Cfg) (chunks : List Bytes), (∀ b ∈ chunks.flatten, b < 256) →
      readerOutput c (machines m8 mo) chunks = searched other c chunks.flatten

/-- It fails on the current tree (finding F13): after a UTF-8 mark the rest is passed through raw, so a
malformed byte stays what it is instead of becoming U+FFFD. -/
theorem C17_full_fails : ¬ C17_full := by
  intro h
  -- decoders that implement the reference transcoders by construction (none is consulted on this input)
  let other : Nat → Bytes → Bytes := fun _ bs => bs
  let m8 : Machine := bufferAll (fun bs => transcode other .utf8 (if ownMark .utf8 bs then bs.drop (ownMarkLen .utf8) else bs))
  let mo : Nat → Machine := fun id => bufferAll (fun bs => transcode other (.other id) (if ownMark (.other id) bs then bs.drop (ownMarkLen (.other id)) else bs))
  have hm8 : Implements other .utf8 m8 := fun bs _ => bufferAll_decode _ bs
  have hmo : ∀ id, Implements other (.other id) (mo id) := fun id bs _ => bufferAll_decode _ bs
  have := h other m8 mo hm8 hmo ⟨none, true⟩ [[0xEF, 0xBB, 0xBF, 0xFF]] (by decide)
  have hl : readerOutput ⟨none, true⟩ (machines m8 mo) [[0xEF, 0xBB, 0xBF, 0xFF]] = [0xFF] := by
    simp [readerOutput, peek3, plan, bomOf, dropBytes]
  rw [hl] at this
  have hr : searched other ⟨none, true⟩ [0xEF, 0xBB, 0xBF, 0xFF] = [0xEF, 0xBF, 0xBD] := by
    simp only [searched, bomOf, transcode, List.drop_succ_cons, List.drop_zero, Bool.not_true, Bool.false_eq_true, if_false]
    rw [transcode8.eq_def]
    simp only
    rw [transcode8.eq_def]
    decide
  simp only [List.flatten_cons, List.flatten_nil, List.append_nil] at this
  rw [hr] at this
  cases this

/-- **Proved part** (guard `c17Guard`, decidable, see its definition: excludes exactly F13, a label next to
a UTF-8 mark, and a second mark): for every configuration (auto / label / none, and the API-only
label-without-sniffing), every input and **every fragmentation**, the searcher reads the UTF-8 transcoding
of the input — the mark decides and is removed, malformed UTF-16 becomes U+FFFD — given that the UTF-8
decoder and the table-driven decoders compute their reference transcoding on whole inputs (`Implements`;
proven for UTF-16, validated against the real decoders by the correspondence run for the others). -/
theorem C17 (other : Nat → Bytes → Bytes) (m8 : Machine) (mo : Nat → Machine)
    (h8 : Implements other .utf8 m8) (ho : ∀ id, Implements other (.other id) (mo id))
    (c : Cfg) (chunks : List Bytes) (hb : ∀ b ∈ chunks.flatten, b < 256)
    (hg : c17Guard c chunks.flatten = true) :
    readerOutput c (machines m8 mo) chunks = searched other c chunks.flatten := by
  rw [decode_chunk_independent]
  generalize chunks.flatten = bs at hb hg
  have himpl : ∀ e, Implements other e (machines m8 mo e) := by
    intro e
    cases e with
    | utf8 => exact h8
    | utf16le => exact utf16_implements other false
    | utf16be => exact utf16_implements other true
    | other id => exact ho id
  have hdrop : ∀ n, ∀ b ∈ bs.drop n, b < 256 := fun n b hbm => hb b (List.mem_of_mem_drop hbm)
  have htake : bomOf (bs.take 3) = bomOf bs := bomOf_take3 bs
  simp only [readerOutput, peek3_eq, List.flatten_cons, List.flatten_nil, List.append_nil, plan, htake]
  unfold c17Guard at hg
  unfold searched
  cases hs : c.bomSniffing with
  | false =>
    simp only [hs, Bool.not_false, if_true] at hg ⊢
    cases hl : c.label with
    | none => simp [dropBytes]
    | some e =>
      simp only [hl] at hg
      have hno : ownMark e bs = false := by simpa using hg
      simp only [dropBytes, List.flatMap_cons, List.flatMap_nil, List.append_nil]
      rw [decode_flatten, splitCap_flatten, himpl e bs hb, hno]
      simp
  | true =>
    simp only [hs, Bool.not_true, Bool.false_eq_true, if_false] at hg ⊢
    cases hbom : bomOf bs with
    | none =>
      simp only [hbom] at hg ⊢
      cases hl : c.label with
      | none => simp [dropBytes]
      | some e =>
        have hno : ownMark e bs = false := by
          cases e with
          | other id => simp [ownMark]
          | utf8 => unfold bomOf at hbom; unfold ownMark; split at hbom <;> simp_all
          | utf16le => unfold bomOf at hbom; unfold ownMark; split at hbom <;> simp_all
          | utf16be => unfold bomOf at hbom; unfold ownMark; split at hbom <;> simp_all
        simp only [dropBytes, List.flatMap_cons, List.flatMap_nil, List.append_nil]
        rw [decode_flatten, splitCap_flatten, himpl e bs hb, hno]
        simp
    | some en =>
      obtain ⟨e, n⟩ := en
      simp only [hbom] at hg ⊢
      have hbody : (dropBytes n [bs]).flatten = bs.drop n := by
        simpa using dropBytes_flatten n [bs]
      cases e with
      | utf8 =>
        simp only at hg ⊢
        cases hl : c.label with
        | none =>
          simp only [hl] at hg
          simp only [hbody, transcode]
          exact (transcode8_valid _ hg).symm
        | some e' =>
          cases e' with
          | utf8 =>
            simp only [hl] at hg
            have hno : ownMark .utf8 (bs.drop n) = false := by simpa using hg
            simp only
            rw [decode_flatten, flatMap_splitCap_flatten, hbody, himpl .utf8 _ (hdrop n), hno]
            simp
          | utf16le => simp [hl] at hg
          | utf16be => simp [hl] at hg
          | other id => simp [hl] at hg
      | utf16le =>
        simp only at hg ⊢
        have hno : ownMark .utf16le (bs.drop n) = false := by simpa using hg
        rw [decode_flatten, flatMap_splitCap_flatten, hbody, himpl .utf16le _ (hdrop n), hno]
        simp
      | utf16be =>
        simp only at hg ⊢
        have hno : ownMark .utf16be (bs.drop n) = false := by simpa using hg
        rw [decode_flatten, flatMap_splitCap_flatten, hbody, himpl .utf16be _ (hdrop n), hno]
        simp
      | other id =>
        -- `bomOf` never answers with a table-driven encoding
        exfalso
        unfold bomOf at hbom
        split at hbom <;> simp_all

/-- `C17` with every decoder modelled (UTF-16, UTF-8, single-byte tables): no hypothesis about decoders is
left. (Multi-byte table encodings such as shift_jis remain outside: validated by the correspondence run.) -/
theorem C17_modelled (tables : Nat → Nat → Nat) (c : Cfg) (chunks : List Bytes)
    (hb : ∀ b ∈ chunks.flatten, b < 256) (hg : c17Guard c chunks.flatten = true) :
    readerOutput c (machines utf8Machine fun id => tableMachine (tables id)) chunks =
      searched (fun id bs => bs.flatMap fun b => utf8Encode (tables id b)) c chunks.flatten :=
  C17 _ utf8Machine _ (utf8_implements _) (fun id => table_implements tables id) c chunks hb hg

/-! ### the end-of-input flush under the multi-line strategy -/

/-- Full statement: whatever room the caller offers, the decoder's end-of-input output arrives complete. -/
def final_flush_full : Prop := ∀ (room : Nat) (flush : Bytes), 0 < room → finalFlush room flush = flush

/-- It fails on the current tree (known finding `multiline-reader-final-replacement-truncated`): with 2 bytes
of room only `EF BF` of a final U+FFFD is delivered — `rg -U --mmap` / `rg -U … -` (stdin) lose the
replacement character that ends the transcoding of an input with a truncated last character. -/
theorem final_flush_full_fails : ¬ final_flush_full := by
  intro h
  have := h 2 (utf8Encode replacement) (by decide)
  revert this
  decide

/-- **Proved part**: with at least 4 bytes of room (every read of the line-by-line searchers), or when the
flush fits, nothing is lost. -/
theorem final_flush_partial (room : Nat) (flush : Bytes) (h : 4 ≤ room ∨ flush.length ≤ room) :
    finalFlush room flush = flush := by
  unfold finalFlush
  split
  · rcases h with h | h
    · omega
    · exact List.take_of_length_le h
  · rfl

/-- The streaming Shift_JIS decoder (pending lead byte, pointer arithmetic, user-defined range, an ASCII
byte after an unpaired lead is kept) implements the whole-string reference, for every index table. -/
theorem sjis_implements (other : Nat → Bytes → Bytes) (id : Nat) (idx : Nat → Option Nat)
    (h : other id = transcodeSjis idx) : Implements other (.other id) (sjisMachine idx) := by
  intro bs _
  rw [sjis_decode_eq]
  simp [transcode, ownMark, h]

/-- Every decoder the check exercises is a proven machine: UTF-16LE/BE, UTF-8, windows-1252, Shift_JIS
(index jis0208 is data). -/
theorem C17_all_modelled (c : Cfg) (chunks : List Bytes)
    (hb : ∀ b ∈ chunks.flatten, b < 256) (hg : c17Guard c chunks.flatten = true) :
    readerOutput c (machines utf8Machine otherMachine) chunks = searched otherSpec c chunks.flatten := by
  refine C17 otherSpec utf8Machine otherMachine (utf8_implements _) (fun k => ?_) c chunks hb hg
  match k with
  | 0 =>
    intro bs _
    show (tableMachine win1252).decode [bs] = _
    rw [table_decode_eq]
    simp [transcode, ownMark, otherSpec, transcode1252]
  | 1 => exact sjis_implements otherSpec 1 Sjis.index rfl
  | n + 2 =>
    intro bs _
    show (tableMachine _root_.id).decode [bs] = _
    rw [table_decode_eq]
    simp [transcode, ownMark, otherSpec]

/-- Non-vacuity of the guard: a UTF-16LE file with mark, an astral character, a lone surrogate and an odd
byte count; a UTF-8 file with mark and valid content; a label without mark. -/
example :
    c17Guard ⟨none, true⟩ [0xFF, 0xFE, 0x61, 0x00, 0x3D, 0xD8, 0x00, 0xDE, 0x00, 0xDC, 0x0A, 0x00, 0x41] = true ∧
    c17Guard ⟨none, true⟩ [0xEF, 0xBB, 0xBF, 0x68, 0xC3, 0xA9, 0x0A] = true ∧
    c17Guard ⟨some (.other 0), true⟩ [0x68, 0xE9, 0x0A] = true ∧
    c17Guard ⟨some .utf16be, true⟩ [0xFF, 0xFE, 0x61, 0x00] = true := by
  decide

end RgVerif.Props.C17
