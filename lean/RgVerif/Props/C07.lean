import RgVerif.Lemmas.ParWalkSafety
import RgVerif.Lemmas.ParWalkExec
import RgVerif.Lemmas.ParWalkLive
import RgVerif.Lemmas.ParWalkFair
/-
C07 — the parallel walker loses / duplicates nothing and terminates under every thread schedule.

All statements are about `Reachable n roots s`: the states of the transition system of
`Model/ParWalk.lean` reachable by *any* interleaving of the atomic steps of `n` workers started on
the forest `roots` — for every `n ≥ 1`, every finite forest, every schedule, every steal batch size,
every pattern of spurious steal failures and a visitor that may answer `Quit` at any call.
-/
namespace RgVerif.Props.C07
open RgVerif RgVerif.ParWalk

/-- Conservation: for every label, (handed to a visitor) + (queued in a deque or held in hand by a
worker) never exceeds its number of occurrences in the tree — nothing is duplicated or invented —
and equals it as long as no visitor has asked to quit — nothing is lost. -/
theorem inv_conserved {n : Nat} {roots : List Tree} {s : State} (hn : 0 < n)
    (h : Reachable n roots s) (x : Label) :
    s.visited.count x + held n x s ≤ (entriesL roots).count x ∧
    (s.quitAsked = false → s.visited.count x + held n x s = (entriesL roots).count x) :=
  conserved hn h x

/-- Shape of the deques while `quit_now` is unset: a worker that has left its loop owns at most
`[Quit]` (no work is stranded behind it), a live worker's deque never contains `Quit`, and at the
program points where a worker may decide to give up (`ownEmpty`) its own deque is empty. -/
theorem inv_quit_shape {n : Nat} {roots : List Tree} {s : State}
    (h : Reachable n roots s) (hq : s.quitNow = false) (w : Nat) (hw : w < n) :
    ((s.pc w).done = true → s.dq w = [] ∨ s.dq w = [.quit]) ∧
    ((s.pc w).done = false → ∀ m, m ∈ s.dq w → m.isQuit = false) ∧
    ((s.pc w).ownEmpty = true → s.dq w = []) := by
  obtain ⟨h1, h2, h3, h4⟩ := reachable_local h w hw
  refine ⟨?_, h1, h3 hq⟩
  intro hd
  have hall := h4 hq hd
  have htl := h2 hd
  cases e : s.dq w with
  | nil => exact Or.inl rfl
  | cons a d =>
    rw [e] at hall htl
    right
    have ha : a = .quit := by
      have := hall a (by simp)
      cases a <;> simp_all [Msg.isQuit]
    cases d with
    | nil => rw [ha]
    | cons b d =>
      have h5 := hall b (by simp)
      have h6 := htl b (by simp)
      rw [h5] at h6; cases h6

/-- After `quit_now` too: a live worker's deque never holds `Quit`, and a departed worker's deque
holds at most one, on top. -/
theorem inv_quit_shape_always {n : Nat} {roots : List Tree} {s : State}
    (h : Reachable n roots s) (w : Nat) (hw : w < n) :
    ((s.pc w).done = false → ∀ m, m ∈ s.dq w → m.isQuit = false) ∧
    ((s.pc w).done = true → ∀ m, m ∈ (s.dq w).tail → m.isQuit = false) :=
  ⟨(reachable_local h w hw).1, (reachable_local h w hw).2.1⟩

/-- No visitor asked to quit and every worker has exited: the visitor calls are exactly the entries
of the tree, each once (as multisets: a permutation). -/
theorem C07_safe {n : Nat} {roots : List Tree} {s : State} (hn : 0 < n)
    (h : Reachable n roots s) (hex : AllExited n s) (hq : s.quitAsked = false) :
    s.visited.Perm (entriesL roots) := by
  rw [List.perm_iff_count]
  intro x
  have hc := (conserved hn h x).2 hq
  have hqn : s.quitNow = false := by
    cases e : s.quitNow
    · rfl
    · rw [(quitNow_asked h).1 e] at hq; cases hq
  have hz : held n x s = 0 := by
    unfold held
    rw [sumTo_zero, sumTo_zero]
    · intro w hw
      have hd : (s.pc w).done = true := by
        have := hex w hw
        cases e : s.pc w <;> simp_all [Pc.isExited, Pc.done]
      have hall := (reachable_local h w hw).2.2.2 hqn hd
      simp only [Function.comp]
      generalize s.dq w = d at hall
      induction d with
      | nil => rfl
      | cons a d ih =>
        have ha := hall a (by simp)
        rw [dqCnt_cons, ih (fun m hm => hall m (by simp [hm]))]
        cases a <;> simp_all [Msg.isQuit, Msg.cnt]
    · intro w hw
      have := hex w hw
      simp only [Function.comp]
      cases e : s.pc w <;> simp_all [Pc.isExited, Pc.cnt]
  unfold cntL at hc
  omega

/-- If the entries of the tree are pairwise distinct (paths are), `C07_safe` says: every entry is
handed to exactly one visitor call. -/
theorem C07_safe_nodup {n : Nat} {roots : List Tree} {s : State} (hn : 0 < n)
    (h : Reachable n roots s) (hex : AllExited n s) (hq : s.quitAsked = false)
    (hnd : (entriesL roots).Nodup) :
    s.visited.Nodup ∧ ∀ x, x ∈ s.visited ↔ x ∈ entriesL roots := by
  have hp := C07_safe hn h hex hq
  exact ⟨hp.nodup_iff.2 hnd, fun x => hp.mem_iff⟩

/-- In every reachable state — in particular after a visitor asked to quit at any visit index — no
entry has been handed out more often than it occurs in the tree; with distinct entries: never twice. -/
theorem C07_quit {n : Nat} {roots : List Tree} {s : State} (hn : 0 < n)
    (h : Reachable n roots s) :
    (∀ x, s.visited.count x ≤ (entriesL roots).count x) ∧
    ((entriesL roots).Nodup → s.visited.Nodup) := by
  have hc : ∀ x, s.visited.count x ≤ (entriesL roots).count x := by
    intro x
    have := (conserved hn h x).1
    unfold cntL at this
    omega
  refine ⟨hc, ?_⟩
  intro hnd
  rw [List.nodup_iff_count] at hnd ⊢
  intro x
  exact Nat.le_trans (hc x) (hnd x)

/-- The driver's executable transition function only takes steps of the relation quantified over
above, so every trace replayed against the real walker is covered by these theorems. -/
theorem driver_steps_are_model_steps {n : Nat} {s s' : State} {w : Nat} {a : Act}
    (h : stepFn n s w a = some s') : Step n s w s' :=
  stepFn_sound h

/-- … and it can take every step of the relation (the replay is not restricted to a sub-system). -/
theorem model_steps_are_driver_steps {n : Nat} {s s' : State} {w : Nat} (h : Step n s w s') :
    ∃ a, stepFn n s w a = some s' :=
  stepFn_complete h

/-- `active_workers` counts exactly the workers outside the idle loop that have not seen it reach 0
(so `fetch_sub` in `deactivate_worker` never wraps), and while nobody is counted the worker whose
decrement returned 0 exists — it is the one that broadcasts `Quit`. -/
theorem inv_active {n : Nat} {roots : List Tree} {s : State} (hn : 0 < n)
    (h : Reachable n roots s) :
    s.active = sumTo n (Pc.counted ∘ s.pc) ∧
    0 < sumTo n (Pc.counted ∘ s.pc) + sumTo n (Pc.zeroed ∘ s.pc) ∧
    (∀ w, w < n → s.pc w = .deact → 1 ≤ s.active) := by
  obtain ⟨h1, h2⟩ := reachable_count hn h
  refine ⟨h1, h2, ?_⟩
  intro w hw hpc
  have := le_sumTo (Pc.counted ∘ s.pc) hw
  simp only [Function.comp, hpc, Pc.counted] at this
  omega

/-- The domino: as soon as one worker has decided to leave, a `Quit` message exists (in a deque or
in a worker's hand on its way back into a deque) — it is never consumed without being re-sent. -/
theorem inv_quit_domino {n : Nat} {roots : List Tree} {s : State}
    (h : Reachable n roots s) (w : Nat) (hw : w < n) (hg : (s.pc w).gone = 1) :
    0 < quits n s := by
  apply reachable_quitinv h
  have := le_sumTo (Pc.gone ∘ s.pc) hw
  simp only [Function.comp, hg] at this
  omega

/-- Nothing ever blocks: a worker that has not exited always has an enabled step. -/
theorem always_enabled {n : Nat} {s : State} {w : Nat} (hw : w < n)
    (hl : (s.pc w).isExited = false) : ∃ s', Step n s w s' :=
  live_can_step hw hl

/-- Deadlock (and livelock) freedom: in every reachable state in which some worker has not exited
there is a worker `w` that, running alone, performs finitely many idle-loop steps (`StutterPath`;
none at all unless every live worker is idle) and then a step that strictly lowers the termination
measure `mu`. -/
theorem no_deadlock {n : Nat} {roots : List Tree} {s : State} (hn : 0 < n)
    (h : Reachable n roots s) (hne : ¬ AllExited n s) :
    ∃ w, w < n ∧ ∃ s1 s2, StutterPath n w s s1 ∧ Step n s1 w s2 ∧ mu n s2 < mu n s1 :=
  progress_possible hn h hne

/-- The variant: every step strictly lowers `mu`, except the steps of the idle loop of `get_work`
that find nothing (`recv` on an empty own deque, a failing steal attempt, the end of a failed
round, the sleep), which leave `mu` and everything but the worker's position in that loop unchanged. -/
theorem measure_decreases {n : Nat} {s s' : State} {w : Nat} (hs : Step n s w s') :
    mu n s' < mu n s ∨ (mu n s' = mu n s ∧ Stutter s w s') :=
  step_mu hs

/-- Bounded progress: an execution from the initial state, whatever the schedule, contains at most
`n·(n+9) + |entries|·(n+12)` non-stutter steps. -/
theorem bounded_progress {n : Nat} {roots : List Tree} {s : State} {k : Nat} (hn : 0 < n)
    (h : Run n (init n roots) k s) :
    k ≤ n * (n + 9) + (entriesL roots).length * (n + 12) := by
  have := h.bound
  have := mu_init_le n hn roots
  omega

/-- From every reachable state the walk can still finish: some continuation reaches the state in
which every worker has exited (no reachable state is doomed). -/
theorem can_always_finish {n : Nat} {roots : List Tree} {s : State} (hn : 0 < n)
    (h : Reachable n roots s) : ∃ k s', Run n s k s' ∧ AllExited n s' :=
  can_finish hn (mu n s) s (Nat.le_refl _) h

/-- Termination: every infinite execution (`Exec`: at each time some worker takes a step of the
model, or everybody has exited) that is *weakly fair* — no worker that has not exited is ignored by
the scheduler for ever — and in which `Steal::Retry` on a non-empty deque happens only finitely often
reaches the state in which every worker has exited.

Why fairness: without it the claim is false of the model *and of the code* — see `unfair_spin`: an
idle worker can go round its idle loop for ever while a worker that holds all the work is never
scheduled. No scheduler of a real machine does that; "terminates under every interleaving" is read
as "under every weakly fair interleaving". The `Retry` hypothesis is needed because a steal attempt
in the model may fail at any time; in crossbeam a `Retry` is caused by a concurrent successful
operation, of which `bounded_progress` allows only finitely many. -/
theorem C07_term {n : Nat} {roots : List Tree} {σ : Nat → State} {who : Nat → Nat} (hn : 0 < n)
    (h0 : Reachable n roots (σ 0)) (he : Exec n σ who) (hf : WeaklyFair n σ who)
    (hr : FinitelyManyRetries σ who) : ∃ i, AllExited n (σ i) :=
  fair_terminates hn h0 he hf hr

/-- Unfair spinning is a behaviour of the model: an idle worker whose own deque is empty can take a
step and then return to exactly the same global state by idle-loop steps alone (a cycle that an
unfair scheduler may repeat for ever, whatever the other workers hold). -/
theorem unfair_spin {n : Nat} {s : State} {w : Nat} (hw : w < n) (hpc : s.pc w = .recv true)
    (hdq : s.dq w = []) :
    ∃ s1, Step n s w s1 ∧ Stutter s w s1 ∧ StutterPath n w s1 s := by
  refine ⟨setPc s w (.steal true (order n w)), .popEmpty hdq hw hpc, ?_, ?_⟩
  · exact stutter_setPc (by rw [hpc]; rfl) rfl
  · have := path_to_recv hw (setPc s w (.steal true (order n w))) (by simp [Pc.idle])
    rw [setPc_setPc, setPc_self hpc] at this
    exact this

/-! Non-vacuity: two workers on the tree `0(1, 2(3))` under the schedule that realises the scenario
"`active_workers` reaches 0 while an idle thief holds stolen work" run to completion; the hypotheses
of `C07_safe` hold of the final state and all four entries were visited. -/
example : ∃ s, Reachable 2 demoRoots s ∧ AllExited 2 s ∧ s.quitAsked = false ∧
    s.visited = [[0], [2], [3], [1]] := by
  have h : ((runActs 2 demoSched (init 2 demoRoots)).map fun s =>
      (allExitedB 2 s, s.quitAsked, s.visited)) = some (true, false, [[0], [2], [3], [1]]) := by decide
  cases e : runActs 2 demoSched (init 2 demoRoots) with
  | none => rw [e] at h; cases h
  | some s =>
    rw [e] at h
    simp only [Option.map_some, Option.some.injEq, Prod.mk.injEq] at h
    refine ⟨s, runActs_reachable _ .init e, ?_, h.2.1, h.2.2⟩
    intro w hw
    have := h.1
    simp only [allExitedB, List.all_eq_true, List.mem_range] at this
    exact this w hw

end RgVerif.Props.C07
