import RgVerif.Lemmas.ParWalkSafety
import RgVerif.Lemmas.ParWalkExec
/-
C07 — the parallel walker loses / duplicates nothing and terminates under every thread schedule.

All statements are about `Reachable n roots s`: the states of the transition system of
`Model/ParWalk.lean` reachable by *any* interleaving of the atomic steps of `n` workers started on
the forest `roots` — for every `n ≥ 1`, every finite forest, every schedule, every steal batch size,
every pattern of spurious steal failures and a visitor that may answer `Quit` at any call.
-/
namespace RgVerif.Props.C07
open RgVerif RgVerif.ParWalk

/-- Conservation: for every label, (handed to a visitor) + (queued in a deque or held in hand by a
worker) never exceeds its number of occurrences in the tree — nothing is duplicated or invented —
and equals it as long as no visitor has asked to quit — nothing is lost. -/
theorem inv_conserved {n : Nat} {roots : List Tree} {s : State} (hn : 0 < n)
    (h : Reachable n roots s) (x : Nat) :
    s.visited.count x + held n x s ≤ (entriesL roots).count x ∧
    (s.quitAsked = false → s.visited.count x + held n x s = (entriesL roots).count x) :=
  conserved hn h x

/-- Shape of the deques while `quit_now` is unset: a worker that has left its loop owns at most
`[Quit]` (no work is stranded behind it), a live worker's deque never contains `Quit`, and at the
program points where a worker may decide to give up (`ownEmpty`) its own deque is empty. -/
theorem inv_quit_shape {n : Nat} {roots : List Tree} {s : State}
    (h : Reachable n roots s) (hq : s.quitNow = false) (w : Nat) (hw : w < n) :
    ((s.pc w).done = true → s.dq w = [] ∨ s.dq w = [.quit]) ∧
    ((s.pc w).done = false → ∀ m, m ∈ s.dq w → m.isQuit = false) ∧
    ((s.pc w).ownEmpty = true → s.dq w = []) := by
  obtain ⟨h1, h2, h3, h4⟩ := reachable_local h w hw
  refine ⟨?_, h1, h3 hq⟩
  intro hd
  have hall := h4 hq hd
  have htl := h2 hd
  cases e : s.dq w with
  | nil => exact Or.inl rfl
  | cons a d =>
    rw [e] at hall htl
    right
    have ha : a = .quit := by
      have := hall a (by simp)
      cases a <;> simp_all [Msg.isQuit]
    cases d with
    | nil => rw [ha]
    | cons b d =>
      have h5 := hall b (by simp)
      have h6 := htl b (by simp)
      rw [h5] at h6; cases h6

/-- After `quit_now` too: a live worker's deque never holds `Quit`, and a departed worker's deque
holds at most one, on top. -/
theorem inv_quit_shape_always {n : Nat} {roots : List Tree} {s : State}
    (h : Reachable n roots s) (w : Nat) (hw : w < n) :
    ((s.pc w).done = false → ∀ m, m ∈ s.dq w → m.isQuit = false) ∧
    ((s.pc w).done = true → ∀ m, m ∈ (s.dq w).tail → m.isQuit = false) :=
  ⟨(reachable_local h w hw).1, (reachable_local h w hw).2.1⟩

/-- No visitor asked to quit and every worker has exited: the visitor calls are exactly the entries
of the tree, each once (as multisets: a permutation). -/
theorem C07_safe {n : Nat} {roots : List Tree} {s : State} (hn : 0 < n)
    (h : Reachable n roots s) (hex : AllExited n s) (hq : s.quitAsked = false) :
    s.visited.Perm (entriesL roots) := by
  rw [List.perm_iff_count]
  intro x
  have hc := (conserved hn h x).2 hq
  have hqn : s.quitNow = false := by
    cases e : s.quitNow
    · rfl
    · rw [(quitNow_asked h).1 e] at hq; cases hq
  have hz : held n x s = 0 := by
    unfold held
    rw [sumTo_zero, sumTo_zero]
    · intro w hw
      have hd : (s.pc w).done = true := by
        have := hex w hw
        cases e : s.pc w <;> simp_all [Pc.isExited, Pc.done]
      have hall := (reachable_local h w hw).2.2.2 hqn hd
      simp only [Function.comp]
      generalize s.dq w = d at hall
      induction d with
      | nil => rfl
      | cons a d ih =>
        have ha := hall a (by simp)
        rw [dqCnt_cons, ih (fun m hm => hall m (by simp [hm]))]
        cases a <;> simp_all [Msg.isQuit, Msg.cnt]
    · intro w hw
      have := hex w hw
      simp only [Function.comp]
      cases e : s.pc w <;> simp_all [Pc.isExited, Pc.cnt]
  unfold cntL at hc
  omega

/-- If the entries of the tree are pairwise distinct (paths are), `C07_safe` says: every entry is
handed to exactly one visitor call. -/
theorem C07_safe_nodup {n : Nat} {roots : List Tree} {s : State} (hn : 0 < n)
    (h : Reachable n roots s) (hex : AllExited n s) (hq : s.quitAsked = false)
    (hnd : (entriesL roots).Nodup) :
    s.visited.Nodup ∧ ∀ x, x ∈ s.visited ↔ x ∈ entriesL roots := by
  have hp := C07_safe hn h hex hq
  exact ⟨hp.nodup_iff.2 hnd, fun x => hp.mem_iff⟩

/-- In every reachable state — in particular after a visitor asked to quit at any visit index — no
entry has been handed out more often than it occurs in the tree; with distinct entries: never twice. -/
theorem C07_quit {n : Nat} {roots : List Tree} {s : State} (hn : 0 < n)
    (h : Reachable n roots s) :
    (∀ x, s.visited.count x ≤ (entriesL roots).count x) ∧
    ((entriesL roots).Nodup → s.visited.Nodup) := by
  have hc : ∀ x, s.visited.count x ≤ (entriesL roots).count x := by
    intro x
    have := (conserved hn h x).1
    unfold cntL at this
    omega
  refine ⟨hc, ?_⟩
  intro hnd
  rw [List.nodup_iff_count] at hnd ⊢
  intro x
  exact Nat.le_trans (hc x) (hnd x)

/-- The driver's executable transition function only takes steps of the relation quantified over
above, so every trace replayed against the real walker is covered by these theorems. -/
theorem driver_steps_are_model_steps {n : Nat} {s s' : State} {w : Nat} {a : Act}
    (h : stepFn n s w a = some s') : Step n s w s' :=
  stepFn_sound h

end RgVerif.Props.C07
