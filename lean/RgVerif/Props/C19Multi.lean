import RgVerif.Lemmas.ReplaceMulti
import RgVerif.Props.C19
/-
C19 under -U — replacement in (effective) multi-line mode.
Only the theorems that decide this part of the property live here; helper lemmas are in `Lemmas/ReplaceMulti.lean`.

Model : `ReplaceMulti.replaceAllMulti` (multi-line branch of `Replacer::replace_all`: haystack cut at
        `range.end + MAX_LOOK_AHEAD`, no terminator trimming, `is_at_unterminated_end`, the coordinator's
        `Replace.replaceWithCapturesInContext`), `ReplaceMulti.printReplacedBlock` (`StandardSink::matched` →
        `Sunk::from_sink_match` with the replacement → `sink_slow_multi_line` / `sink_fast_multi_line` of the C09
        model on the REPLACED bytes).
Spec  : `ReplaceSpec.replaceAllSpec` with the regex crate's template grammar (`ReplaceSpec.expand`) over the matches
        the printer keeps in `[rs, re)` (`Lemmas.ReplaceMulti.kept`), then "each line terminated"
        (`PrinterSpec.completed`).
-/
namespace RgVerif.Props.C19Multi
open RgVerif RgVerif.Matcher RgVerif.Interp RgVerif.ReplaceSpec RgVerif.Replace RgVerif.Printer RgVerif.PrinterSpec
open RgVerif.ReplaceMulti
open RgVerif.Lemmas.Interp RgVerif.Lemmas.ReplaceIter RgVerif.Lemmas.ReplaceFold RgVerif.Lemmas.ReplaceMulti

/-- the block's replaced text, reference template grammar: the regex crate's replace-all over the kept matches of
the cut haystack `hay`, from `rs` to the end of the block -/
def blockSpec (capsAt : Nat → Option Caps) (names : List (Bytes × Nat)) (hay : Bytes) (rs re : Nat) (atEnd : Bool)
    (tmpl : Bytes) : Bytes :=
  replaceAllSpec hay (fun c => expand (envOf hay names c) tmpl) (kept capsAt hay rs re atEnd) rs (min hay.length re)

/-- **The replacement buffer of a block.** For every sane matcher, block `[rs, re)` and template (reference grammar
guard `braceOk`, as in C19), the buffer of `replace_all` is the replace-all of the block over the matches the
printer replaces (`kept`: the iterator's matches up to the first one that starts beyond the block or — since
2e6bd1f — reaches beyond it), and one expansion offset is recorded per replaced match. No guard on the matches: a
match reaching beyond the block (possible through the look-ahead cut) is left alone and the rest of the block is
copied verbatim. -/
theorem C19_multi_buffer (sc : SCfg) (capsAtOf : Bytes → Nat → Option Caps) (names : List (Bytes × Nat))
    (buf : Bytes) (rs re : Nat) (tmpl : Bytes) (hay : Bytes) (hhay : hay = cutHaystack sc buf re)
    (hs : Sane (capsAtOf hay) hay.length)
    (hok : braceOk tmpl = true) (henv : ∀ c, EnvOk (envOf hay names c)) :
    (replaceAllMulti sc capsAtOf names buf rs re tmpl).dst =
      blockSpec (capsAtOf hay) names hay rs re (isAtUnterminatedEnd sc.lt hay rs re) tmpl ∧
    (replaceAllMulti sc capsAtOf names buf rs re tmpl).spans.length =
      (kept (capsAtOf hay) hay rs re (isAtUnterminatedEnd sc.lt hay rs re)).length := by
  subst hhay
  obtain ⟨h2, h3⟩ := replaceAllMulti_eq sc capsAtOf names buf rs re tmpl hs
  refine ⟨?_, h3⟩
  rw [h2]
  unfold blockSpec
  have hexp : (fun c => interpolate (envOf (cutHaystack sc buf re) names c) tmpl) =
      fun c => expand (envOf (cutHaystack sc buf re) names c) tmpl := by
    funext c; exact Props.C19.interpolate_eq_spec _ (henv c) tmpl hok
  rw [hexp]

/-- **C19 under -U, any printer configuration** (no `--only-matching`, no `--vimgrep`): when at least one match is
kept, the block is printed from its replaced text, line by line; every line is a record of its own (line number
`ln + i`, on every line the column of the first expansion) and keeps its own terminator, a missing one completed —
for every line terminator mode (finding F19 repaired in b0493c8). -/
theorem C19_multi_records (sc : SCfg) (c : StdCfg) (capsAtOf : Bytes → Nat → Option Caps)
    (names : List (Bytes × Nat)) (buf : Bytes) (rs re absOff : Nat) (ln : Option Nat) (tmpl : Bytes)
    (hay : Bytes) (hhay : hay = cutHaystack sc buf re)
    (hml : sc.multiLine = true) (ho : c.onlyMatching = false) (hp : c.perMatch = false)
    (hs : Sane (capsAtOf hay) hay.length)
    (hk : kept (capsAtOf hay) hay rs re (isAtUnterminatedEnd sc.lt hay rs re) ≠ [])
    (hok : braceOk tmpl = true) (henv : ∀ c, EnvOk (envOf hay names c)) :
    ∃ k, printReplacedBlock sc c capsAtOf names buf rs re absOff ln tmpl =
      (blockRecords sc.lt c absOff ln (optIf c.column k) 0 0
        (splitLines sc.lt.asByte
          (blockSpec (capsAtOf hay) names hay rs re (isAtUnterminatedEnd sc.lt hay rs re) tmpl))).flatMap
        (printRecord c) := by
  subst hhay
  have hexp : (fun c => interpolate (envOf (cutHaystack sc buf re) names c) tmpl) =
      fun c => expand (envOf (cutHaystack sc buf re) names c) tmpl := by
    funext c; exact Props.C19.interpolate_eq_spec _ (henv c) tmpl hok
  have htxt : replacedText sc capsAtOf names buf rs re tmpl =
      blockSpec (capsAtOf (cutHaystack sc buf re)) names (cutHaystack sc buf re) rs re
        (isAtUnterminatedEnd sc.lt (cutHaystack sc buf re) rs re) tmpl := by
    unfold replacedText blockSpec
    rw [hexp]
  have := printReplacedBlock_eq sc c capsAtOf names buf rs re absOff ln tmpl hml ho hp hs hk
  rw [htxt] at this
  exact this

/-- **C19 under -U**: with a plain printer (no path, line number, column or byte offset) the printed block text is
the replace-all of the block over the kept matches, each line of it terminated. -/
theorem C19_multi (sc : SCfg) (c : StdCfg) (capsAtOf : Bytes → Nat → Option Caps)
    (names : List (Bytes × Nat)) (buf : Bytes) (rs re absOff : Nat) (tmpl : Bytes)
    (hay : Bytes) (hhay : hay = cutHaystack sc buf re)
    (hml : sc.multiLine = true) (ho : c.onlyMatching = false) (hp : c.perMatch = false)
    (hpath : c.path = none) (hcol : c.column = false) (hboff : c.byteOffset = false)
    (hs : Sane (capsAtOf hay) hay.length)
    (hk : kept (capsAtOf hay) hay rs re (isAtUnterminatedEnd sc.lt hay rs re) ≠ [])
    (hok : braceOk tmpl = true) (henv : ∀ c, EnvOk (envOf hay names c)) :
    printReplacedBlock sc c capsAtOf names buf rs re absOff none tmpl =
      (splitLines sc.lt.asByte
        (blockSpec (capsAtOf hay) names hay rs re (isAtUnterminatedEnd sc.lt hay rs re) tmpl)).flatMap
        (completed sc.lt) := by
  obtain ⟨k, hk'⟩ := C19_multi_records sc c capsAtOf names buf rs re absOff none tmpl hay hhay hml ho hp hs hk
    hok henv
  rw [hk', blockRecords_plain sc.lt c absOff k hpath hcol hboff]

/-- A block in which the printer keeps no match is printed unreplaced, by the C09 printer on the original bytes
(this is where finding F32 shows: the searcher reported the line for an empty match directly after a match, which
the replace loop skips). -/
theorem C19_multi_unreplaced (sc : SCfg) (c : StdCfg) (capsAtOf : Bytes → Nat → Option Caps)
    (names : List (Bytes × Nat)) (buf : Bytes) (rs re absOff : Nat) (ln : Option Nat) (tmpl : Bytes)
    (hs : Sane (capsAtOf (cutHaystack sc buf re)) (cutHaystack sc buf re).length)
    (hk : kept (capsAtOf (cutHaystack sc buf re)) (cutHaystack sc buf re) rs re
      (isAtUnterminatedEnd sc.lt (cutHaystack sc buf re) rs re) = []) :
    printReplacedBlock sc c capsAtOf names buf rs re absOff ln tmpl =
      sinkBody sc c { bytes := slice buf rs re, absOff, lineNo := ln, ctx := none
                    , ms := shiftSpans rs (findIterInContext sc (findOf capsAtOf) buf rs re) } := by
  obtain ⟨_, h3⟩ := replaceAllMulti_eq sc capsAtOf names buf rs re tmpl hs
  rw [hk] at h3
  have : (replaceAllMulti sc capsAtOf names buf rs re tmpl).spans.isEmpty = true := by
    have : (replaceAllMulti sc capsAtOf names buf rs re tmpl).spans = [] :=
      List.length_eq_zero_iff.mp (by simpa using h3)
    simp [this]
  unfold printReplacedBlock
  simp [sunkOf, this]

/-! ## A re-found match may reach beyond the block (look-ahead cut): regressions of F18 and of 2e6bd1f -/

/-- **Nothing from beyond the block**: every match that is replaced lies inside the block, so the captures its
expansion is built from (`$0`, `$n`) are taken from the reported lines only; all other printed bytes are copied
from `[rs, min |hay| re)` (`C19_multi_buffer`). -/
theorem replaced_matches_inside_block (capsAt : Nat → Option Caps) (hay : Bytes) (rs re : Nat) (atEnd : Bool) :
    ∀ c ∈ kept capsAt hay rs re atEnd, (sp c).e ≤ re :=
  kept_inside capsAt hay rs re atEnd

/-- a matcher whose match from the start of the block `a\\n` of `a\\nb\\n` ends in the next line — what the printer
sees when the look-ahead cut lets `\\z` match where the searcher saw no match (`(?s)a.{129}\\z|a`) -/
def beyondBlockMatcher : Bytes → Nat → Option Caps :=
  fun _ p => if p == 0 then some ⟨[some ⟨0, 3⟩]⟩ else none

theorem beyondBlockMatcher_sane (hay : Bytes) (h : 3 ≤ hay.length) : Sane (beyondBlockMatcher hay) hay.length := by
  constructor
  · intro p c hc; unfold beyondBlockMatcher at hc; split at hc <;> simp_all [sp, Caps.get]
  · intro p c hc; unfold beyondBlockMatcher at hc; split at hc <;> simp_all [sp, Caps.get]; subst hc; simp
  · intro p c hc; unfold beyondBlockMatcher at hc; split at hc <;> simp_all [sp, Caps.get]; subst hc; simpa
  · intro p p' c hc h1 h2
    unfold beyondBlockMatcher at hc ⊢
    split at hc
    · injection hc with hc; subst hc
      simp [sp, Caps.get] at h2
      have hp : p = 0 := by simp_all
      subst hp
      have : p' = 0 := by omega
      subst this; rfl
    · simp at hc

/-- Regression witness (F18: before 55c3d7e the code panicked here; before 2e6bd1f it replaced the match and `$0`
copied `a\\nb` from beyond the block): the match `[0,3)` reaches beyond the block `[0,2)`, so nothing is replaced and
the block is printed as it is, `a\\n`. -/
example :
    Sane (beyondBlockMatcher [97, 10, 98, 10]) 4 ∧
    kept (beyondBlockMatcher [97, 10, 98, 10]) [97, 10, 98, 10] 0 2 false = [] ∧
    (replaceAllMulti { multiLine := true } beyondBlockMatcher [] [97, 10, 98, 10] 0 2 [88]).dst = [97, 10] ∧
    printReplacedBlock { multiLine := true } {} beyondBlockMatcher [] [97, 10, 98, 10] 0 2 0 none [88] = [97, 10] := by
  have hI : ∀ env, interpolate env [88] = [88] := fun env => Props.C19.interpolate_no_dollar env [88] (by decide)
  refine ⟨beyondBlockMatcher_sane _ (by decide), by decide, ?_, ?_⟩
  · unfold replaceAllMulti replaceWithCapturesInContext
    simp only [hI]
    decide
  · unfold printReplacedBlock replaceAllMulti replaceWithCapturesInContext
    simp only [hI]
    decide

/-! ## No CRLF guard: every line keeps its own terminator -/

/-- Statement of `C19_multi` for ripgrep's own interpolation, any template and any line terminator mode: the printed
block is the replaced text, every line of it with its own terminator (`completed` only adds a missing final one). -/
def C19_multi_crlf_full : Prop :=
  ∀ (sc : SCfg) (capsAtOf : Bytes → Nat → Option Caps) (names : List (Bytes × Nat)) (buf : Bytes) (rs re : Nat)
    (tmpl : Bytes), sc.multiLine = true →
    Sane (capsAtOf (cutHaystack sc buf re)) (cutHaystack sc buf re).length →
    kept (capsAtOf (cutHaystack sc buf re)) (cutHaystack sc buf re) rs re
      (isAtUnterminatedEnd sc.lt (cutHaystack sc buf re) rs re) ≠ [] →
    printReplacedBlock sc {} capsAtOf names buf rs re 0 none tmpl =
      (splitLines sc.lt.asByte (replacedText sc capsAtOf names buf rs re tmpl)).flatMap (completed sc.lt)

/-- the matcher of the pattern `a` on `a\\nb\\n` -/
def firstByteMatcher : Bytes → Nat → Option Caps :=
  fun _ p => if p == 0 then some ⟨[some ⟨0, 1⟩]⟩ else none

theorem firstByteMatcher_sane (hay : Bytes) (h : 1 ≤ hay.length) : Sane (firstByteMatcher hay) hay.length := by
  constructor
  · intro p c hc; unfold firstByteMatcher at hc; split at hc <;> simp_all [sp, Caps.get]
  · intro p c hc; unfold firstByteMatcher at hc; split at hc <;> simp_all [sp, Caps.get]; subst hc; simp
  · intro p c hc; unfold firstByteMatcher at hc; split at hc <;> simp_all [sp, Caps.get]; subst hc; simpa
  · intro p p' c hc h1 h2
    unfold firstByteMatcher at hc ⊢
    split at hc
    · injection hc with hc; subst hc
      simp [sp, Caps.get] at h2
      have hp : p = 0 := by simp_all
      subst hp
      have : p' = 0 := by omega
      subst this; rfl
    · simp at hc

/-- Holds since b0493c8 (it was false before: finding F19, `a\\r\\n`-rewriting of bare-LF lines under `--crlf`). -/
theorem C19_multi_crlf_full_holds : C19_multi_crlf_full := by
  intro sc capsAtOf names buf rs re tmpl hml hs hk
  obtain ⟨k, hk'⟩ := printReplacedBlock_eq sc {} capsAtOf names buf rs re 0 none tmpl hml rfl rfl hs hk
  rw [hk', blockRecords_plain sc.lt {} 0 k rfl rfl rfl]

/-- Regression witness for F19: `rg --crlf -U -r X a` on `a\\nb\\n` prints `X\\nb\\n` (before b0493c8:
`X\\r\\nb\\r\\n`), and on `a\\r\\nb\\n` it prints `X\\r\\nb\\n`. -/
example :
    printReplacedBlock { lt := .crlf, multiLine := true } {} firstByteMatcher [] [97, 10, 98, 10] 0 4 0 none [88]
      = [88, 10, 98, 10] ∧
    printReplacedBlock { lt := .crlf, multiLine := true } {} firstByteMatcher [] [97, 13, 10, 98, 10] 0 5 0 none [88]
      = [88, 13, 10, 98, 10] := by
  have hI : ∀ env, interpolate env [88] = [88] := fun env => Props.C19.interpolate_no_dollar env [88] (by decide)
  constructor <;>
  · unfold printReplacedBlock replaceAllMulti replaceWithCapturesInContext
    simp only [hI]
    decide

/-- non-vacuity of `C19_multi`: `a\\nb` replaced by `X` in the block `a\\nb\\n` of an LF search satisfies every
hypothesis, and the printed block is `X\\n`. -/
example :
    Sane (firstByteMatcher [97, 10, 98, 10]) 4 ∧
    kept (firstByteMatcher [97, 10, 98, 10]) [97, 10, 98, 10] 0 4 (isAtUnterminatedEnd (.byte 10) [97, 10, 98, 10] 0 4)
      = [⟨[some ⟨0, 1⟩]⟩] ∧
    printReplacedBlock { multiLine := true } {} firstByteMatcher [] [97, 10, 98, 10] 0 4 0 none [88]
      = [88, 10, 98, 10] := by
  refine ⟨firstByteMatcher_sane _ (by decide), by decide, ?_⟩
  have hI : ∀ env, interpolate env [88] = [88] := fun env => Props.C19.interpolate_no_dollar env [88] (by decide)
  unfold printReplacedBlock replaceAllMulti replaceWithCapturesInContext
  simp only [hI]
  decide

end RgVerif.Props.C19Multi
