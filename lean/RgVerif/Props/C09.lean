import RgVerif.Lemmas.PrinterJson
import RgVerif.Lemmas.PrinterRecord
/-
C09 — printed lines and their coordinates are the input's own; JSON output is lossless.
Only the theorems that decide the property live here (helper lemmas: `Lemmas/Printer*.lean`).
-/
namespace RgVerif.Props.C09
open RgVerif RgVerif.Matcher RgVerif.Replace RgVerif.Json RgVerif.Printer RgVerif.PrinterSpec

/-- A number printed by `DecimalFormatter` reads back as the same number. -/
theorem decimal_roundtrip (n : Nat) : parseNat (decimal n) = n :=
  Lemmas.PrinterRecord.parseNat_decimal n

/-- `base64_standard` loses nothing: the RFC 4648 decoder returns the input bytes. -/
theorem base64_roundtrip (b : Bytes) (h : ∀ x ∈ b, x < 256) : unbase64 (base64 b) = some b :=
  Lemmas.PrinterJson.base64_roundtrip b h

/-- base64 is used precisely when the bytes are not valid UTF-8. -/
theorem utf8_decision (b : Bytes) : (encodeData b).isText = true ↔ validUtf8 b = true := by
  unfold encodeData
  by_cases h : validUtf8 b = true <;> simp [h, Data.isText]

/-- Whatever `Data` carries, a consumer reads the original bytes back. -/
theorem data_roundtrip (b : Bytes) (h : ∀ x ∈ b, x < 256) : decodeData (encodeData b) = some b := by
  unfold encodeData
  by_cases hv : validUtf8 b = true
  · simp [hv, decodeData]
  · simp [hv, decodeData, base64_roundtrip b h]

/-- Reading back a printed record `path SEP lineno SEP column SEP offset SEP text` yields its fields, provided
the separators are single non-digit bytes that do not occur in the path. -/
theorem record_parses (c : StdCfg) (r : Rec) (sepB pathSepB : Nat) (g : ParseGuard c r sepB pathSepB) :
    parseRecord (shapeOf r sepB pathSepB) (printRecord c r) = some (r.path, r.lineNo, r.col, r.off, r.text) :=
  Lemmas.PrinterRecord.record_parses c r sepB pathSepB g

/-- non-vacuity of `record_parses`: `src/a.rs:12:3:100:x:y\n` -/
example : ParseGuard {} { path := some [115, 114, 99], lineNo := some 12, col := some 3, off := some 100, isCtx := false
                        , text := [120, 58, 121, 10] } 58 58 := by
  refine ⟨rfl, rfl, rfl, ?_⟩
  intro p hp
  injection hp with hp
  subst hp
  decide

end RgVerif.Props.C09
