import RgVerif.Lemmas.PrinterJson
import RgVerif.Lemmas.PrinterRecord
import RgVerif.Lemmas.PrinterStd
import RgVerif.Lemmas.PrinterJsonRun
import RgVerif.Lemmas.PrinterMulti
/-
C09 — printed lines and their coordinates are the input's own; JSON output is lossless.
Only the theorems that decide the property live here (helper lemmas: `Lemmas/Printer*.lean`).
All statements are about the model of `standard.rs` / `json.rs` / `jsont.rs` / `util.rs`
(`Model/Printer.lean`, `Model/Json.lean`), for every configuration, every event stream the searcher may
deliver and every matcher (`find : haystack → position → match`).
-/
namespace RgVerif.Props.C09
open RgVerif RgVerif.Matcher RgVerif.Replace RgVerif.Json RgVerif.Printer RgVerif.PrinterSpec
open RgVerif.Lemmas.PrinterIter RgVerif.Lemmas.PrinterStd RgVerif.Lemmas.PrinterJsonRun RgVerif.Lemmas.PrinterMulti

/-! ## Round trips -/

/-- A number printed by `DecimalFormatter` reads back as the same number. -/
theorem decimal_roundtrip (n : Nat) : parseNat (decimal n) = n :=
  Lemmas.PrinterRecord.parseNat_decimal n

/-- `base64_standard` loses nothing: the RFC 4648 decoder returns the input bytes. -/
theorem base64_roundtrip (b : Bytes) (h : ∀ x ∈ b, x < 256) : unbase64 (base64 b) = some b :=
  Lemmas.PrinterJson.base64_roundtrip b h

/-- base64 is used precisely when the bytes are not valid UTF-8. -/
theorem utf8_decision (b : Bytes) : (encodeData b).isText = true ↔ validUtf8 b = true := by
  unfold encodeData
  by_cases h : validUtf8 b = true <;> simp [h, Data.isText]

/-- Whatever `Data` carries, a consumer reads the original bytes back. -/
theorem data_roundtrip (b : Bytes) (h : ∀ x ∈ b, x < 256) : decodeData (encodeData b) = some b := by
  unfold encodeData
  by_cases hv : validUtf8 b = true
  · simp [hv, decodeData]
  · simp [hv, decodeData, base64_roundtrip b h]

/-- Reading back a printed record `path SEP lineno SEP column SEP offset SEP text` yields its fields, provided
the separators are single non-digit bytes that do not occur in the path. -/
theorem record_parses (c : StdCfg) (r : Rec) (sepB pathSepB : Nat) (g : ParseGuard c r sepB pathSepB) :
    parseRecord (shapeOf r sepB pathSepB) (printRecord c r) = some (r.path, r.lineNo, r.col, r.off, r.text) :=
  Lemmas.PrinterRecord.record_parses c r sepB pathSepB g

/-- non-vacuity of `record_parses`: `src:12:3:100:x:y\n` -/
example : ParseGuard {} { path := some [115, 114, 99], lineNo := some 12, col := some 3, off := some 100, isCtx := false
                        , text := [120, 58, 121, 10] } 58 58 := by
  refine ⟨rfl, rfl, rfl, ?_⟩
  intro p hp
  injection hp with hp
  subst hp
  decide

/-! ## Standard printer -/

/-- What `PreludeWriter` writes in front of a line is the record layout: path, line number, column, byte
offset in this order, each followed by its separator (the path by the path terminator when one is set). -/
theorem prelude_is_record_layout (lt : LineTerm) (c : StdCfg) (isCtx : Bool) (off : Nat) (ln col : Option Nat)
    (line : Bytes) :
    writePrelude c isCtx off ln col ++ writeLine lt line =
      printRecord c { path := recPath c, lineNo := ln, col := if c.column then col else none
                    , off := optIf c.byteOffset off, isCtx, text := completed lt line } :=
  prelude_line_eq lt c isCtx off ln col line

/-- "A missing final terminator is completed, nothing else altered". -/
theorem completed_is_line (lt : LineTerm) (line : Bytes) :
    ∃ suffix, completed lt line = line ++ suffix ∧
      (suffix = [] ∧ line.getLast? = some lt.asByte ∨ suffix = lt.bytes ∧ line.getLast? ≠ some lt.asByte) := by
  unfold completed
  by_cases h : line.getLast? = some lt.asByte
  · exact ⟨[], by simp [h], Or.inl ⟨rfl, h⟩⟩
  · exact ⟨lt.bytes, by simp [h], Or.inr ⟨rfl, h⟩⟩

/-- **Records are the event's own** (single-line mode, not `--vimgrep`): a matched line produces exactly one
record; its text is the event's line (completed), its line number and byte offset are the event's. -/
theorem matched_record_own (sc : SCfg) (c : StdCfg) (find : Oracle) (buf : Bytes) (rs re off : Nat) (ln : Option Nat)
    (hml : sc.multiLine = false) (hpm : c.perMatch = false) :
    ∃ r, eventRecords sc c find (.matched buf rs re off ln) = [r] ∧
      r.text = completed sc.lt (slice buf rs re) ∧ r.lineNo = ln ∧ r.off = optIf c.byteOffset off ∧
      r.path = recPath c ∧ r.isCtx = false := by
  unfold eventRecords
  simp only [hml, Bool.false_eq_true, ↓reduceIte]
  unfold lineRecords
  split
  · exact ⟨_, rfl, rfl, rfl, rfl, rfl, rfl⟩
  · simp only [hpm, Bool.false_eq_true, ↓reduceIte]
    exact ⟨_, rfl, rfl, rfl, rfl, rfl, rfl⟩

/-- **The column is the start of the first match in the line**: with `--column` (not `--vimgrep`, single-line
mode), the printer searches the line's own content (terminator removed) from its first byte (0cdcce3); if the
matcher's first answer there is `m`, the record of the line carries column `m.start + 1`. -/
theorem matched_record_column (sc : SCfg) (c : StdCfg) (find : Oracle) (buf : Bytes) (rs re off : Nat)
    (ln : Option Nat) (m : Span) (hml : sc.multiLine = false) (hpm : c.perMatch = false) (hcol : c.column = true)
    (hf : find (lineHaystack sc.lt buf rs re) 0 = some m) :
    ∃ r, eventRecords sc c find (.matched buf rs re off ln) = [r] ∧ r.col = some (m.s + 1) := by
  have hsh : shownHay sc buf rs re = lineHaystack sc.lt buf rs re := by simp [shownHay, hml]
  have hfr : shownFrom sc rs = 0 := by simp [shownFrom, hml]
  obtain ⟨t, ht⟩ := findIterInContext_head sc find buf rs re m (by rw [hfr]; omega) (by rw [hsh, hfr]; exact hf)
    (by intro h; rw [hml] at h; cases h)
  simp only [hml, Bool.false_eq_true, ↓reduceIte] at ht
  have hg : c.granular = true := by simp [StdCfg.granular, hcol]
  unfold eventRecords
  simp only [hml, Bool.false_eq_true, ↓reduceIte, eventSpans, hg, ht, shiftSpans, List.map_cons]
  unfold lineRecords
  simp only [hpm, Bool.false_eq_true, ↓reduceIte, hcol, optIf]
  exact ⟨_, rfl, by simp⟩

/-- The F6 regression in the model: `$` on the single unterminated line `abc` (matcher answers `[3,3)`) gives
column 4. -/
example :
    eventRecords {} { column := true } (fun _ p => if p ≤ 3 then some ⟨3, 3⟩ else none)
      (.matched [97, 98, 99] 0 3 0 (some 1)) =
    [{ path := none, lineNo := some 1, col := some 4, off := none, isCtx := false, text := [97, 98, 99, 10] }] := by
  decide

/-- **C09, Standard printer, one event**, every path (single-line, context, fast / slow / `--vimgrep` multi-line)
and every line terminator mode: the sink appends, after the search prelude when nothing was written yet in this
search, exactly the layout of the event's own records (only-matching output is outside C09). Full strength since
the repair of F19 (b0493c8): the slow multi-line paths keep each line's own terminator. -/
theorem C09_standard_event (sc : SCfg) (c : StdCfg) (find : Oracle) (st : StdState) (ev : Event)
    (ho : c.onlyMatching = false) :
    (stdEvent sc c find st ev).1.out = st.out ++ eventOutput sc c find st.count st.total ev :=
  stdEvent_out_all sc c find st ev ho

/-- Regression witness for F19 (before b0493c8 the first line came out as `a\r\n`): `--crlf -U` with match
granularity prints the bare-LF lines `a\n`, `b\n` of a block unchanged. -/
example :
    (stdEvent { lt := .crlf, multiLine := true } { stats := true }
      (fun _ p => if p == 0 then some ⟨0, 3⟩ else none) {} (.matched [97, 10, 98, 10] 0 4 0 none)).1.out =
    [97, 10, 98, 10] := by
  decide

/-- **C09, Standard printer, whole stream**: the bytes printed for a search are the concatenation, over the
events the sink consumed (in order), of each event's own records in the record layout; nothing else is printed
except the search separator / heading before the first record and the context separator for a context break. -/
theorem C09_standard (sc : SCfg) (c : StdCfg) (find : Oracle) (st : StdState) (evs : List Event)
    (ho : c.onlyMatching = false) :
    (stdEvents sc c find st evs).out =
      st.out ++ (processed sc c find st evs).flatMap (fun p => eventOutput sc c find p.1.count p.1.total p.2) :=
  stdEvents_out_all sc c find ho evs st

/-- In a multi-line block every line is a record of its own: line number `ln + i`, the offset of its first byte,
its own text (a missing terminator completed). -/
theorem block_records_own (lt : LineTerm) (c : StdCfg) (absOff : Nat) (ln col : Option Nat) :
    ∀ (lines : List Bytes) (i off : Nat) (k : Nat) (hk : k < lines.length),
      ∃ r, (blockRecords lt c absOff ln col i off lines)[k]? = some r ∧
        r.text = completed lt lines[k] ∧ r.lineNo = ln.map (· + (i + k)) ∧
        r.off = optIf c.byteOffset (absOff + (off + ((lines.take k).map List.length).sum)) := by
  intro lines
  induction lines with
  | nil => intro i off k hk; simp at hk
  | cons line rest ih =>
    intro i off k hk
    cases k with
    | zero =>
      refine ⟨{ path := recPath c, lineNo := ln.map (· + i), col := col, off := optIf c.byteOffset (absOff + off)
              , isCtx := false, text := completed lt line }, by simp [blockRecords], by simp, by simp, by simp⟩
    | succ k =>
      have hk' : k < rest.length := by simpa using hk
      obtain ⟨r, hr, h1, h2, h3⟩ := ih (i + 1) (off + line.length) k hk'
      refine ⟨r, by simpa [blockRecords] using hr, by simpa using h1, ?_, ?_⟩
      · rw [h2]; congr 1; funext x; omega
      · rw [h3]; simp; congr 1; omega

/-- the events `C09_standard` speaks about do record matches: a match with `--column` in single-line mode (found
in the line's own content `ab`), and a multi-line block with match granularity. -/
example :
    eventSpans {} { column := true } (fun _ p => if p ≤ 1 then some ⟨1, 2⟩ else none)
      (.matched [97, 98, 10, 99] 0 3 0 (some 1)) = [⟨1, 2⟩] ∧
    eventSpans { multiLine := true } { column := true } (fun _ p => if p == 0 then some ⟨0, 3⟩ else none)
      (.matched [97, 10, 98, 10] 0 4 0 (some 1)) = [⟨0, 3⟩] := by
  decide

/-- 0cdcce3 in the model: the second line `b` of `ab\nb` is searched on its own, so a matcher for `\Ab` (answers
only at position 0 of what it is shown) gives it column 1; shown the buffer from offset 3 it would have no match. -/
example :
    eventRecords {} { column := true } (fun hay p => if p == 0 && hay.head? == some 98 then some ⟨0, 1⟩ else none)
      (.matched [97, 98, 10, 98] 3 4 3 (some 2)) =
    [{ path := none, lineNo := some 2, col := some 1, off := none, isCtx := false, text := [98, 10] }] := by
  decide

/-! ## JSON printer -/

/-- **Sequencing**: per search, the messages are nothing at all, or one `begin`, then only match/context
messages, then one `end`. -/
theorem C09_json_sequence (sc : SCfg) (jc : JsonCfg) (find : Oracle) (evs : List Event) (bc : Nat)
    (hp : (jsonSearch sc jc find evs bc).panicked = false) :
    (jsonSearch sc jc find evs bc).msgs = [] ∨
    ∃ mids stats, (jsonSearch sc jc find evs bc).msgs =
        .begin (pathData jc.path) :: (mids ++ [.end (pathData jc.path) none stats]) ∧
      ∀ m ∈ mids, Msg.isMid m = true :=
  jsonSearch_shape sc jc find evs bc hp

/-- **One event, one message**: a match/context event appends exactly the message built from it — its own
line bytes, line number, absolute offset and the matches found inside it — and all these matches lie inside
the line. -/
theorem C09_json_event (sc : SCfg) (jc : JsonCfg) (find : Oracle) (st : JsonState) (ev : Event)
    (hp : (jsonEvent sc jc find st ev).1.panicked = false) :
    (jsonEvent sc jc find st ev).1.msgs =
      (match msgOfEvent sc jc find ev with
       | some m => (st.writeBegin jc).msgs ++ [m]
       | none => st.msgs) ∧
    InRange (eventBytes ev) (jsonSpans sc find ev) :=
  jsonEvent_msgs sc jc find st ev hp

/-- **Lossless**: decoding the `lines` object of an event's message gives the event's bytes, and decoding any
submatch object gives exactly the sub-range `[start, end)` of these bytes: `line[sm.start..sm.end] = sm.text`. -/
theorem C09_json (bytes : Bytes) (hb : ∀ x ∈ bytes, x < 256) (ms : List Span) (_hin : InRange bytes ms) :
    decodeData (encodeData bytes) = some bytes ∧
    ∀ sm ∈ ms.map (subOf bytes), decodeData sm.m = some (slice bytes sm.s sm.e) ∧ sm.s ≤ sm.e ∧ sm.e ≤ bytes.length := by
  refine ⟨data_roundtrip bytes hb, ?_⟩
  intro sm hsm
  obtain ⟨m, hm, rfl⟩ := List.mem_map.mp hsm
  exact ⟨subOf_decodes bytes hb m, (_hin m hm).1, (_hin m hm).2⟩

/-- **The JSON printer reports every delivered event (never aborts)**: for every well-formed stream and every
matcher that is sane on each haystack it is shown, `SubMatches::new` never slices out of range — in single-line
mode because the haystack ends with the line, in multi-line mode because (since the repair of F18, 55c3d7e) a
re-found match is clamped to the end of the reported lines. Full strength, no guard. -/
theorem C09_json_total (sc : SCfg) (jc : JsonCfg) (find : Oracle)
    (evs : List Event) (bc : Nat) (hall : ∀ ev ∈ evs, EventOk sc find ev) :
    (jsonSearch sc jc find evs bc).panicked = false :=
  jsonSearch_no_panic sc jc find evs bc hall

/-- The matcher of the F18 witness: `(?s)a.{129}\z|a` seen through `find_at(hay, 0)` — on a haystack of exactly 130
bytes the first alternative matches all of it, otherwise only the `a`. -/
def lookaheadCutMatcher : Oracle :=
  fun hay p => if p == 0 then (if hay.length == 130 then some ⟨0, 130⟩ else some ⟨0, 1⟩) else none

theorem lookaheadCutMatcher_sane (hay : Bytes) (h : 1 ≤ hay.length) : Sane (lookaheadCutMatcher hay) hay.length := by
  constructor <;> intro p m hm <;> unfold lookaheadCutMatcher at hm <;> split at hm
  all_goals first
    | (split at hm <;> injection hm with hm <;> subst hm <;> simp_all <;> omega)
    | simp at hm

/-- Regression witness for F18 (before 55c3d7e the code panicked here): the block `a\n` of a buffer with more than
128 further bytes is re-searched in a haystack cut 128 bytes after the block; the matcher's answer `[0,130)` ends
beyond the block and is reported clamped, as the submatch `[0,2)` = `a\n`. -/
example :
    findIterInContext { multiLine := true } lookaheadCutMatcher (97 :: 10 :: List.replicate 300 98) 0 2 = [⟨0, 2⟩] := by
  have hlen : (97 :: 10 :: List.replicate 300 98).length = 302 := by
    simp only [List.length_cons, List.length_replicate]
  generalize (97 :: 10 :: List.replicate 300 98) = buf at hlen
  have hcut : (cutHaystack { multiLine := true } buf 2).length = 130 := by
    simp only [cutHaystack, ↓reduceIte, hlen, maxLookAhead]
    have : (302 - 2 ≥ 128) := by omega
    simp only [this, ↓reduceIte, List.length_take, hlen]
    omega
  rw [findIterInContext_eq]
  simp only [↓reduceIte]
  rw [hcut, show (130 : Nat) + 2 = 130 + 1 + 1 from rfl, iterGo_succ]
  have hstep : ∀ atEnd, gstep (keepML 2 atEnd) (trML 2) [] ⟨0, 130⟩ = ([⟨0, 2⟩], true) := by
    intro atEnd; simp [gstep, keepML, trML, beyondRange]
  simp [lookaheadCutMatcher, hcut, hstep]
  apply iterGo_find_none
  simp [lookaheadCutMatcher]

/-- non-vacuity of the guard: the F6 witness (`$` on `abc`) is a well-formed single-line event with a sane
matcher, and its message carries the submatch `[3,3)`. -/
example :
    (jsonSearch {} {} (fun _ p => if p ≤ 3 then some ⟨3, 3⟩ else none)
      [.matched [97, 98, 99] 0 3 0 (some 1)] 3).msgs =
    [.begin none, .matched none (.text [97, 98, 99]) (some 1) 0 [{ m := .text [], s := 3, e := 3 }],
     .end none none { searches := 1, searchesWithMatch := 1, bytesSearched := 3, matchedLines := 1, matchCount := 1 }] := by
  decide

end RgVerif.Props.C09
