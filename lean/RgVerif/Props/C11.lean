import RgVerif.Lemmas.HirStrip
import RgVerif.Lemmas.HirNonMatching
/-
C11 — line-mode matcher promises hold for every accepted pattern over all lines.

Every statement quantifies over all HIRs, all haystacks and all spans at once (structural
induction on the HIR / on the match derivation), and over an arbitrary look-around
evaluator `lk` (so in particular for the real Unicode word table).
-/
namespace RgVerif.Props.C11
open RgVerif RgVerif.Rx

/-! ### (a) the terminator never occurs in a match; rejection instead of silent change -/

/-- A pattern accepted by `strip_from_match_ascii` never matches a span containing the byte. -/
theorem strip_sound (lk : LookFn) (h h' : Hir) (b : Nat) (hay : Bytes) (s e : Nat)
    (hs : stripAscii h b = .ok h') (hm : Matches lk h' hay s e) : b ∉ slice hay s e := by
  unfold stripAscii at hs
  split at hs
  · cases hs
  · rw [← noByteIn_iff]
    exact noByte_sound (by omega) h' (stripGo_noByte h b h' hs) hm

/-- The verified checker run on the HIR of the real matcher: `noByte` implies the promise. -/
theorem noByte_checker_sound (lk : LookFn) (h : Hir) (b : Nat) (hb : b < 128) (hay : Bytes) (s e : Nat)
    (hc : noByte b h = true) (hm : Matches lk h hay s e) : b ∉ slice hay s e := by
  rw [← noByteIn_iff]
  exact noByte_sound hb h hc hm

/-- Never silently altered: the accepted pattern has exactly the matches of the original that are
free of the byte (nothing added, nothing else dropped). -/
theorem strip_faithful (lk : LookFn) (h h' : Hir) (b : Nat) (hay : Bytes) (s e : Nat)
    (hs : stripAscii h b = .ok h') :
    Matches lk h' hay s e ↔ (Matches lk h hay s e ∧ b ∉ slice hay s e) := by
  have hs0 := hs
  unfold stripAscii at hs
  split at hs
  · cases hs
  · rename_i hb
    constructor
    · intro hm
      exact ⟨stripGo_mono h h' hs hm, strip_sound lk h h' b hay s e hs0 hm⟩
    · rintro ⟨hm, hn⟩
      exact stripGo_keep (by omega) h h' hs hm ((noByteIn_iff _ _ _ _).2 hn)

/-- Rejection is exact: an error arises iff the byte is not ASCII or some leaf of the pattern can
only consume the byte (a literal containing it, or a non-empty class that is left empty). -/
theorem strip_rejects (h : Hir) (b : Nat) :
    (∃ e, stripAscii h b = .error e) ↔ (b ≥ 128 ∨ needsByte b h = true) := by
  unfold stripAscii
  split
  · rename_i hb; simp [hb]
  · rename_i hb
    rw [stripGo_error_iff]
    constructor
    · intro h; exact Or.inr h
    · rintro (h | h)
      · exact absurd h hb
      · exact h

/-- The line-terminator version (`strip_from_match`): LF/NUL/any ASCII byte, or CRLF = both bytes. -/
theorem strip_sound_lineterm (lk : LookFn) (h h' : Hir) (lt : LineTerm) (hay : Bytes) (s e : Nat)
    (hs : strip h lt = .ok h') (hm : Matches lk h' hay s e) : ∀ b ∈ lt.bytes, b ∉ slice hay s e := by
  cases lt with
  | byte b0 =>
    intro b hb
    simp only [LineTerm.bytes, List.mem_singleton] at hb
    subst hb
    exact strip_sound lk h h' b hay s e hs hm
  | crlf =>
    simp only [strip] at hs
    split at hs
    · rename_i h1 hs1
      intro b hb
      simp only [LineTerm.bytes, List.mem_cons, List.not_mem_nil, or_false] at hb
      rcases hb with rfl | rfl
      · -- `\r` was removed by the first pass; the second pass only removes matches
        have hs' := hs
        unfold stripAscii at hs'
        split at hs'
        · cases hs'
        · exact strip_sound lk h h1 13 hay s e hs1 (stripGo_mono h1 h' hs' hm)
      · exact strip_sound lk h1 h' 10 hay s e hs hm
    · cases hs

/-! ### (b) declared non-matching bytes occur in no match -/

theorem nonmatching_sound (lk : LookFn) (h : Hir) (b : Nat) (hay : Bytes) (s e : Nat)
    (hb : b ∈ nonMatching h) (hm : Matches lk h hay s e) : b ∉ slice hay s e := by
  rw [mem_slice_iff]
  rintro ⟨i, h1, h2, h3⟩
  have := matchingSet_sound h 0 hm i b h1 h2 h3
  rw [(mem_nonMatching.1 hb).2] at this
  cases this

/-! ### non-vacuity -/

/-- `[a\n]b` is accepted, rewritten to `[a]b`, and matches `ab`. -/
example : stripAscii (.concat (.cons (.classB [(10, 10), (97, 97)]) (.cons (.lit [98]) .nil))) 10
    = .ok (.concat (.cons (.classB [(97, 97)]) (.cons (.lit [98]) .nil))) := by rfl

example (lk : LookFn) : Matches lk (.concat (.cons (.classB [(97, 97)]) (.cons (.lit [98]) .nil))) [97, 98] 0 2 :=
  .concat (.cons (.classB (b := 97) rfl rfl) (.cons (.lit (bs := [98]) (s := 1) (by decide) (by decide)) (.nil (by decide))))

/-- `a\nb` is rejected. -/
example : stripAscii (.lit [97, 10, 98]) 10 = .error (.notAllowed 10) := by rfl

example : 10 ∈ nonMatching (.lit [97, 98]) ∧ 97 ∉ nonMatching (.lit [97, 98]) := by decide

end RgVerif.Props.C11
