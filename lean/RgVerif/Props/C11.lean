import RgVerif.Lemmas.HirStrip
import RgVerif.Lemmas.HirNonMatching
import RgVerif.Lemmas.HirConfig
import RgVerif.Lemmas.HirEnds
import RgVerif.Lemmas.HirLitFree
/-
C11 — line-mode matcher promises hold for every accepted pattern over all lines.

Every statement quantifies over all HIRs, all haystacks and all spans at once (structural
induction on the HIR / on the match derivation), and over an arbitrary look-around
evaluator `lk` (so in particular for the real Unicode word table).
-/
namespace RgVerif.Props.C11
open RgVerif RgVerif.Rx

/-! ### (a) the terminator never occurs in a match; rejection instead of silent change -/

/-- A pattern accepted by `strip_from_match_ascii` never matches a span containing the byte. -/
theorem strip_sound (lk : LookFn) (h h' : Hir) (b : Nat) (hay : Bytes) (s e : Nat)
    (hs : stripAscii h b = .ok h') (hm : Matches lk h' hay s e) : b ∉ slice hay s e := by
  unfold stripAscii at hs
  split at hs
  · cases hs
  · rw [← noByteIn_iff]
    exact noByte_sound (by omega) h' (stripGo_noByte h b h' hs) hm

/-- The verified checker run on the HIR of the real matcher: `noByte` implies the promise. -/
theorem noByte_checker_sound (lk : LookFn) (h : Hir) (b : Nat) (hb : b < 128) (hay : Bytes) (s e : Nat)
    (hc : noByte b h = true) (hm : Matches lk h hay s e) : b ∉ slice hay s e := by
  rw [← noByteIn_iff]
  exact noByte_sound hb h hc hm

/-- Never silently altered: the accepted pattern has exactly the matches of the original that are
free of the byte (nothing added, nothing else dropped). -/
theorem strip_faithful (lk : LookFn) (h h' : Hir) (b : Nat) (hay : Bytes) (s e : Nat)
    (hs : stripAscii h b = .ok h') :
    Matches lk h' hay s e ↔ (Matches lk h hay s e ∧ b ∉ slice hay s e) := by
  have hs0 := hs
  unfold stripAscii at hs
  split at hs
  · cases hs
  · rename_i hb
    constructor
    · intro hm
      exact ⟨stripGo_mono h h' hs hm, strip_sound lk h h' b hay s e hs0 hm⟩
    · rintro ⟨hm, hn⟩
      exact stripGo_keep (by omega) h h' hs hm ((noByteIn_iff _ _ _ _).2 hn)

/-- Rejection is exact: an error arises iff the byte is not ASCII or some leaf of the pattern can
only consume the byte (a literal containing it, or a non-empty class that is left empty). -/
theorem strip_rejects (h : Hir) (b : Nat) :
    (∃ e, stripAscii h b = .error e) ↔ (b ≥ 128 ∨ needsByte b h = true) := by
  unfold stripAscii
  split
  · rename_i hb; simp [hb]
  · rename_i hb
    rw [stripGo_error_iff]
    constructor
    · intro h; exact Or.inr h
    · rintro (h | h)
      · exact absurd h hb
      · exact h

/-- The line-terminator version (`strip_from_match`): LF/NUL/any ASCII byte, or CRLF = both bytes. -/
theorem strip_sound_lineterm (lk : LookFn) (h h' : Hir) (lt : LineTerm) (hay : Bytes) (s e : Nat)
    (hs : strip h lt = .ok h') (hm : Matches lk h' hay s e) : ∀ b ∈ lt.bytes, b ∉ slice hay s e := by
  cases lt with
  | byte b0 =>
    intro b hb
    simp only [LineTerm.bytes, List.mem_singleton] at hb
    subst hb
    exact strip_sound lk h h' b hay s e hs hm
  | crlf =>
    simp only [strip] at hs
    split at hs
    · rename_i h1 hs1
      intro b hb
      simp only [LineTerm.bytes, List.mem_cons, List.not_mem_nil, or_false] at hb
      rcases hb with rfl | rfl
      · -- `\r` was removed by the first pass; the second pass only removes matches
        have hs' := hs
        unfold stripAscii at hs'
        split at hs'
        · cases hs'
        · exact strip_sound lk h h1 13 hay s e hs1 (stripGo_mono h1 h' hs' hm)
      · exact strip_sound lk h1 h' 10 hay s e hs hm
    · cases hs

/-- The same for `strip_from_match` as the real code runs it, with the smart-constructor pass `norm`
between the two CRLF passes (`norm` adds no matches). -/
theorem stripN_sound (lk : LookFn) (norm : Hir → Hir)
    (hnorm : ∀ h hay s e, Matches lk (norm h) hay s e → Matches lk h hay s e)
    (h h' : Hir) (lt : LineTerm) (hay : Bytes) (s e : Nat)
    (hs : stripN norm h lt = .ok h') (hm : Matches lk h' hay s e) : ∀ b ∈ lt.bytes, b ∉ slice hay s e := by
  cases lt with
  | byte b0 =>
    intro b hb
    simp only [LineTerm.bytes, List.mem_singleton] at hb
    subst hb
    exact strip_sound lk h h' b hay s e hs hm
  | crlf =>
    simp only [stripN] at hs
    split at hs
    · rename_i h1 hs1
      intro b hb
      simp only [LineTerm.bytes, List.mem_cons, List.not_mem_nil, or_false] at hb
      rcases hb with rfl | rfl
      · have hs' := hs
        unfold stripAscii at hs'
        split at hs'
        · cases hs'
        · exact strip_sound lk h h1 13 hay s e hs1 (hnorm _ _ _ _ (stripGo_mono (norm h1) h' hs' hm))
      · exact strip_sound lk (norm h1) h' 10 hay s e hs hm
    · cases hs

/-! ### (b) declared non-matching bytes occur in no match -/

theorem nonmatching_sound (lk : LookFn) (h : Hir) (b : Nat) (hay : Bytes) (s e : Nat)
    (hb : b ∈ nonMatching h) (hm : Matches lk h hay s e) : b ∉ slice hay s e := by
  rw [mem_slice_iff]
  rintro ⟨i, h1, h2, h3⟩
  have := matchingSet_sound h 0 hm i b h1 h2 h3
  rw [(mem_nonMatching.1 hb).2] at this
  cases this

/-! ### (c) the candidate-line search never passes over a line containing a match -/

/-- The invariant of DESIGN §4.11 holds for the sequence `Extractor::extract` returns, for every
HIR and every match (the core induction over `literal.rs`: `cross`, `union` with its 4-byte trim,
`choose`, the restart loop of `extract_concat`, the four repetition arms, class and literal limits). -/
theorem extract_inv (lk : LookFn) (h : Hir) (hay : Bytes) (s e : Nat) (hm : Matches lk h hay s e) :
    (extract h).Inv (slice hay s e) :=
  Rx.extract_inv h hm

/-- Every match of `h` contains one of the extracted literals. -/
theorem extract_sound (lk : LookFn) (h : Hir) (L : List Lit) (hay : Bytes) (s e : Nat)
    (hL : (extract h).seq = some L) (hm : Matches lk h hay s e) : ∃ l ∈ L, l.bytes <:+: slice hay s e :=
  extract_infix hL hm

/-- The certificate for the un-modelled `optimize_for_prefix_by_preference`: if every literal of `L`
has a literal of `L'` inside it, any word containing a literal of `L` contains one of `L'`. -/
theorem covers_sound (L L' : List Lit) (hc : covers L L' = true) (w : Bytes)
    (h : ∃ l ∈ L, l.bytes <:+: w) : ∃ l' ∈ L', l'.bytes <:+: w :=
  covers_infix hc h

/-- The leftmost-literal search finds an occurrence at or before the one inside the match, and — the
literals being free of the terminator `t` — no terminator lies between the end of the match and the
reported offset: the candidate is on the line of the match or on an earlier line. -/
theorem fastFind_never_skips (lk : LookFn) (h : Hir) (L L' : List Lit) (t : Nat) (hay : Bytes) (s e : Nat)
    (hL : (extract h).seq = some L) (hc : covers L L' = true) (hno : litsNoByte t L' = true)
    (hm : Matches lk h hay s e) :
    ∃ i, fastFind L' hay = some i ∧ NoByteIn t hay e i := by
  have hsp := Matches.span hm
  obtain ⟨l', hl', hin⟩ := covers_infix hc (extract_infix hL hm)
  obtain ⟨q, hq1, hq2, hq3⟩ := infix_slice_pos hsp.2 hsp.1 hin
  obtain ⟨p, l, hfind, _, hp2, hl, hpre⟩ :=
    fastFindFrom_spec L' hay (hay.length + 1) 0 q l' (Nat.zero_le _) (by omega) (by omega) hl' hq3
  refine ⟨p + l.bytes.length, hfind, ?_⟩
  have hfree : t ∉ l.bytes := by
    unfold litsNoByte at hno
    rw [List.all_eq_true] at hno
    simpa using hno l hl
  have := prefix_drop_noByte hpre hfree
  intro i h1 h2
  exact this i (by omega) h2

/-- `lits_no_term`: an expression that cannot consume the byte `b` (the checker `noByte`, which
`strip` establishes) yields only literals free of `b` — an occurrence of an extracted literal lies
inside one line. -/
theorem lits_no_term (h : Hir) (b : Nat) (hb : b < 128) (hn : noByte b h = true) (L : List Lit)
    (hL : (extract h).seq = some L) : litsNoByte b L = true := by
  unfold litsNoByte
  rw [List.all_eq_true]
  intro l hl
  have := extract_free hb h hn L hL l hl
  simpa using this

/-- What is assumed of the two external functions, each validated on every run by the harness:
the optimiser keeps the infinite sequence infinite and its output covers its input (certificate
`covers`, checked on the real output), and its literals are free of the terminator bytes
(certificate `litsNoByte`, checked on the real output). -/
structure OptimizeCert (optimize : Seq → Seq) (h : Hir) (termBytes : List Nat) : Prop where
  inf : optimize none = none
  cov : ∀ L L', (extract h).seq = some L → optimize (some L) = some L' → covers L L' = true
  noTerm : ∀ L L', (extract h).seq = some L → optimize (some L) = some L' → ∀ t ∈ termBytes, litsNoByte t L' = true

/-- Contract of the regex engine behind `shortest_match` (validated, not proven): the reported
offset is the end of a match, and no match of the haystack ends strictly before that match starts;
no answer means no match.  (Deliberately weaker than "a match with minimal start": regex-automata 0.4.7
does not always return the leftmost match — `Sherlock|b[a-z]SherlockSherlock` on `baSherlockSherlock`
yields (2,10) — but it never jumps over a match, which is all promise (c) needs.) -/
/- `hnorm` in `C11` below: regex-syntax's smart constructors add no matches (external; the harness
checks the stronger `noByte` certificate on their actual output, see `noByte_checker_sound`). -/

structure EngineSpec (lk : LookFn) (h : Hir) (shortest : Bytes → Option Nat) : Prop where
  some_ : ∀ hay i, shortest hay = some i → ∃ s, Matches lk h hay s i ∧ ∀ s' e', Matches lk h hay s' e' → s ≤ e'
  none_ : ∀ hay, shortest hay = none → ∀ s e, ¬ Matches lk h hay s e

/-- **C11**: for every configuration, every pattern list and every HIR the translator may return, if
`build_many` yields a matcher then, for ALL haystacks and ALL matches of its expression,
(a) the match contains no byte of the configured line terminator,
(b) it contains no byte declared non-matching,
(c) `find_candidate_line` answers, and no terminator byte lies between the end of the match and the
    reported offset (so the reported line is the line of the match or an earlier one). -/
theorem C11 (lk : LookFn) (cfg : Config) (pats : List Bytes) (translated : Hir) (accelerated : Bool)
    (optimize : Seq → Seq) (norm : Hir → Hir) (shortest : Bytes → Option Nat) (m : MatcherM)
    (hb : cfg.build pats translated accelerated optimize norm = .ok m)
    (hnorm : ∀ h hay s e, Matches lk (norm h) hay s e → Matches lk h hay s e)
    (termBytes : List Nat) (htb : termBytes = (cfg.lineTerm.map LineTerm.bytes).getD [])
    (hopt : OptimizeCert optimize m.hir termBytes)
    (heng : EngineSpec lk m.hir shortest)
    (hay : Bytes) (s e : Nat) (hm : Matches lk m.hir hay s e) :
    (∀ t ∈ termBytes, t ∉ slice hay s e) ∧
    (∀ b ∈ m.nonMatching, b ∉ slice hay s e) ∧
    (∃ c, m.findCandidateLine shortest hay = some c ∧ ∀ t ∈ termBytes, NoByteIn t hay e c.offset) := by
  unfold Config.build at hb
  split at hb
  · cases hb
  · rename_i h0 hcfg
    simp only [Except.ok.injEq] at hb
    subst hb
    simp only at hm hopt heng ⊢
    have hm0 : Matches lk h0 hay s e := matches_wrap cfg (hnorm _ _ _ _ hm)
    -- (a)
    have ha : ∀ t ∈ termBytes, t ∉ slice hay s e := by
      intro t ht
      subst htb
      cases hlt : cfg.lineTerm with
      | none => simp [hlt] at ht
      | some lt =>
        simp only [hlt, Option.map_some, Option.getD_some] at ht
        exact configuredHir_noTerm hcfg hlt hm0
          (fun h' hs hm' => stripN_sound lk norm hnorm translated h' lt hay s e hs hm') t ht
    refine ⟨ha, ?_, ?_⟩
    · -- (b)
      intro b hb
      exact nonmatching_sound lk _ b hay s e hb hm
    · -- (c)
      unfold MatcherM.findCandidateLine
      simp only
      split
      · rename_i L' hfl
        -- the literal search
        unfold fastLiterals at hfl
        split at hfl
        · split at hfl
          · rename_i Lf hfin
            split at hfl
            · cases hfl
            · cases hfl
              unfold finishUntagged at hfin
              split at hfin
              · cases hex : (extract (norm (cfg.wrap h0))).seq with
                | none => rw [hex, hopt.inf] at hfin; cases hfin
                | some L =>
                  rw [hex] at hfin
                  have hc := hopt.cov L L' hex hfin
                  -- one witness offset serves every terminator byte
                  obtain ⟨l', hl', hin⟩ := covers_infix hc (extract_infix hex hm)
                  have hsp := Matches.span hm
                  obtain ⟨q, hq1, hq2, hq3⟩ := infix_slice_pos hsp.2 hsp.1 hin
                  obtain ⟨p, l, hfind, _, hp2, hl, hpre⟩ :=
                    fastFindFrom_spec L' hay (hay.length + 1) 0 q l' (Nat.zero_le _) (by omega) (by omega) hl' hq3
                  refine ⟨.candidate (p + l.bytes.length), ?_, ?_⟩
                  · unfold fastFind; rw [hfind]; rfl
                  · intro t ht
                    have hno := hopt.noTerm L L' hex hfin t ht
                    have hfree : t ∉ l.bytes := by
                      unfold litsNoByte at hno
                      rw [List.all_eq_true] at hno
                      simpa using hno l hl
                    have := prefix_drop_noByte hpre hfree
                    intro i h1 h2
                    exact this i (by omega) h2
              · cases hfin
          · cases hfl
        · cases hfl
      · -- the engine
        cases hsh : shortest hay with
        | none => exact absurd hm (heng.none_ hay hsh s e)
        | some i =>
          obtain ⟨s1, hm1, hmin⟩ := heng.some_ hay i hsh
          -- `Candidate(i)` under `verify_on_line`, else `Confirmed(i)`: the same offset either way
          refine ⟨if cfg.verifyOnLine (norm (cfg.wrap h0)) then .candidate i else .confirmed i,
            by split <;> rfl, ?_⟩
          have hoff : (if cfg.verifyOnLine (norm (cfg.wrap h0)) then Cand.candidate i else Cand.confirmed i).offset = i := by
            split <;> rfl
          rw [hoff]
          intro t ht
          have hle := hmin s e hm
          have hsp := Matches.span hm
          -- the confirmed match itself is free of the terminator
          have hfree : NoByteIn t hay s1 i := by
            rw [noByteIn_iff]
            have hm1' : Matches lk h0 hay s1 i := matches_wrap cfg (hnorm _ _ _ _ hm1)
            subst htb
            cases hlt : cfg.lineTerm with
            | none => simp [hlt] at ht
            | some lt =>
              simp only [hlt, Option.map_some, Option.getD_some] at ht
              exact configuredHir_noTerm hcfg hlt hm1'
                (fun h' hs hm' => stripN_sound lk norm hnorm translated h' lt hay s1 i hs hm') t ht
          intro j h1 h2
          exact hfree j (by omega) h2

/-- After /repo 4165f41 `find_candidate_line` can answer `Candidate` in a second way (no literal regex, but
`verify_on_line`): that candidate is the end of a real match of the buffer — never an offset the engine did not
reach by matching — so promise (c) holds for it exactly as for `Confirmed` (this is the last case of `C11`). -/
theorem candidate_without_literals_is_match_end (lk : LookFn) (m : MatcherM) (shortest : Bytes → Option Nat)
    (heng : EngineSpec lk m.hir shortest) (hf : m.fastLits = none) (hay : Bytes) (c : Cand)
    (hc : m.findCandidateLine shortest hay = some c) :
    ∃ s, Matches lk m.hir hay s c.offset ∧ ∀ s' e', Matches lk m.hir hay s' e' → s ≤ e' := by
  unfold MatcherM.findCandidateLine at hc
  rw [hf] at hc
  cases hs : shortest hay with
  | none => simp [hs] at hc
  | some i =>
    have hoff : c.offset = i := by
      simp only [hs, Option.map_some] at hc
      split at hc <;> (cases hc; rfl)
    rw [hoff]
    exact heng.some_ hay i hs

/-! ### the evaluator the harness compares the real engine with -/

/-- The executable `ends` (run by the driver against regex-automata on every generated
(HIR, haystack)) enumerates exactly the ends of the denotation's matches — so that comparison is a
comparison with `Matches` itself. -/
theorem ends_iff (lk : LookFn) (h : Hir) (hay : Bytes) (s e : Nat) :
    e ∈ ends lk h hay s ↔ Matches lk h hay s e :=
  Rx.ends_iff h hay s e

/-! ### non-vacuity -/

/-- `[a\n]b` is accepted, rewritten to `[a]b`, and matches `ab`. -/
example : stripAscii (.concat (.cons (.classB [(10, 10), (97, 97)]) (.cons (.lit [98]) .nil))) 10
    = .ok (.concat (.cons (.classB [(97, 97)]) (.cons (.lit [98]) .nil))) := by rfl

example (lk : LookFn) : Matches lk (.concat (.cons (.classB [(97, 97)]) (.cons (.lit [98]) .nil))) [97, 98] 0 2 :=
  .concat (.cons (.classB (b := 97) rfl rfl) (.cons (.lit (bs := [98]) (s := 1) (by decide) (by decide)) (.nil (by decide))))

/-- `build_many` succeeds on `[a\n]b+` under an LF terminator, with the literal `ab` for the fast path
(identity optimiser), so the hypotheses of `C11` are satisfiable by a non-trivial case. -/
example :
    (({ lineTerm := some (.byte 10), multiLine := true } : Config).build [[91, 97, 92, 110, 93, 98, 43]]
        (.concat (.cons (.classB [(10, 10), (97, 97)]) (.cons (.rep 1 none true (.lit [98])) .nil)))
        false id id).toOption.map (fun m => (m.fastLits, m.lineTerm))
      = some (some [⟨[97, 98], false⟩], some (.byte 10)) := by rfl

/-- `a\nb` is rejected. -/
example : stripAscii (.lit [97, 10, 98]) 10 = .error (.notAllowed 10) := by rfl

example : 10 ∈ nonMatching (.lit [97, 98]) ∧ 97 ∉ nonMatching (.lit [97, 98]) := by decide

end RgVerif.Props.C11
