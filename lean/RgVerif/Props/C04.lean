import RgVerif.Lemmas.GitLine2
/-
C04 — ignore files mean what git says.  Only the deciding statements; proofs in `Lemmas/Git*.lean`.

M: `Model/Gitignore.lean` (`addLine` = `GitignoreBuilder::add_line`, `matchedStripped` through the glob set of
C12, `matchedIgnore` = nearest ignore file first, `rgSkipped` = the walker's pruning descent).
S: `Spec/GitSpec.lean` (gitignore(5) / `dir.c` / `wildmatch.c`, validated against the real git on every run).

Structure of the argument: line level (`addline_wildmatch`: on the stated sub-grammar ripgrep's rewritten glob
selects the entries git's pattern selects) ⟹ file level (`C04_file`: last matching line wins on both sides;
ripgrep's side goes through `GlobSet` and therefore through C12) ⟹ tree level (`C04_tree`: nearest file
first, deeper overrides shallower, nothing beneath an ignored directory is visited).
-/
namespace RgVerif.Props.C04
open RgVerif RgVerif.Glob RgVerif.Gitignore

/-- **Within a file the last matching pattern wins, `!` re-includes, a trailing slash restricts to
directories**: for every list of compiled lines and every path outside the dots class, the answer obtained
through the glob set equals a scan of the lines from the last to the first. -/
theorem last_match_wins (G : List GiGlob) (p : Bytes) (isDir : Bool) (hd : lastCompDots p = false) :
    (matchedStripped G p isDir).toOpt =
      (G.reverse.find? fun g => g.hits p isDir).map fun g => !g.isWhitelist :=
  matchedStripped_last_wins G p isDir hd

/-- **Line level** (`okLine`: `[!][/]name(/name)*[/]` with plain names): ripgrep's `add_line` rewrite
(`**/name` for a pattern without slash, the anchored path otherwise, directory-only, whitelist) and git's
reading (basename rule, anchoring, `MUSTBEDIR`, `NEGATIVE`) select the same entries with the same polarity,
for every well-formed relative path. -/
theorem addline_wildmatch (l : List Nat) (h : okLine l = true) : LineAgree false l :=
  lineAgree_of_okLine l h

/-- **File level**: if every line of an ignore file means the same to ripgrep and to git, the file does. -/
theorem C04_file (ci : Bool) (lines : List (List Nat)) (h : ∀ l ∈ lines, LineAgree ci l) :
    FileAgree ci lines :=
  fileAgree_of_lines ci lines h

/-- **Tree level**: given file-level agreement for every directory, the entries ripgrep's walker skips are
exactly the entries git ignores — nearest ignore file first, a deeper file overrides a shallower one, and
nothing beneath an ignored directory is visited.  Any depth, any placement of ignore files. -/
theorem C04_tree (ci : Bool) (ign : List Bytes → List (List Nat)) (comps : List Bytes) (isDir : Bool)
    (hag : ∀ d, FileAgree ci (ign d)) (hwf : wfRel comps = true) :
    rgSkipped ci ign comps isDir = GitSpec.gitIgnored ci ign comps isDir :=
  rgSkipped_eq_gitIgnored ci ign comps isDir hag hwf

/-- lines the composition below accepts: the literal sub-grammar, comments, empty lines -/
def okFileLine (l : List Nat) : Bool := okLine l || l.isEmpty || l.head? == some 35

theorem lineAgree_of_okFileLine (l : List Nat) (h : okFileLine l = true) : LineAgree false l := by
  unfold okFileLine at h
  simp only [Bool.or_eq_true, beq_iff_eq] at h
  rcases h with (h | h) | h
  · exact lineAgree_of_okLine l h
  · have : l = [] := by simpa using h
    subst this
    intro rel isDir _
    simp [mHit, sHit, addLine, startsWith, trimLine, endsWith, trimRight, GitSpec.parsePat]
  · intro rel isDir _
    cases l with
    | nil => simp at h
    | cons c rest =>
      simp only [List.head?_cons, Option.some.injEq] at h
      subst h
      simp [mHit, sHit, addLine, startsWith, List.isPrefixOf, GitSpec.parsePat]

/-- **C04** (partial, guard `okFileLine` on every line, case-sensitive): for all trees and all placements of
ignore files whose lines are in the literal sub-grammar, ripgrep skips exactly what git ignores. -/
theorem C04_partial (ign : List Bytes → List (List Nat)) (comps : List Bytes) (isDir : Bool)
    (hok : ∀ d, ∀ l ∈ ign d, okFileLine l = true) (hwf : wfRel comps = true) :
    rgSkipped false ign comps isDir = GitSpec.gitIgnored false ign comps isDir :=
  C04_tree false ign comps isDir
    (fun d => C04_file false (ign d) (fun l hl => lineAgree_of_okFileLine l (hok d l hl))) hwf

/-- the unguarded line-level statement -/
def addline_wildmatch_full : Prop := ∀ (ci : Bool) (l : List Nat), LineAgree ci l

/-- witness: the line `!` — ripgrep compiles it to the whitelist glob `**/` (tokens `[RecursivePrefix]`, which
matches everything), git to an empty negative pattern that matches nothing -/
theorem addline_wildmatch_full_fails : ¬ addline_wildmatch_full := by
  intro h
  have := h false [33] [[97]] false (by decide)
  revert this
  simp [mHit, sHit, GitSpec.parsePat, GitSpec.patMatches, GitSpec.trimSpaces, GitSpec.trimSpaces.go,
    GitSpec.stripNeg, GitSpec.stripDir, GitSpec.stripLead, GitSpec.wm]
  decide

/-- the guard is satisfiable by non-trivial lines: `!/a.b/c-d/` (negated, anchored, two components, a name
with a dot and one with a dash, directory-only) and `A.` (a name ending in `.`) -/
example : okLine [33, 47, 97, 46, 98, 47, 99, 45, 100, 47] = true ∧ okLine [65, 46] = true := by decide

/-- and the composed statement is exercised by a two-level tree: root ignores `b` and `/d/`, `a/.gitignore`
re-includes `b`; `a/b` is kept, `b` and `d/x` are skipped -/
example :
    let ign : List Bytes → List (List Nat) := fun d =>
      if d == [] then [[98], [47, 100, 47]] else if d == [[97]] then [[33, 98]] else []
    rgSkipped false ign [[97], [98]] false = false ∧ rgSkipped false ign [[98]] false = true ∧
    rgSkipped false ign [[100], [120]] false = true := by decide

end RgVerif.Props.C04
