import RgVerif.Lemmas.GitLine3
import RgVerif.Lemmas.GitStar
import RgVerif.Lemmas.GitBlank
import RgVerif.Lemmas.GitClass
import RgVerif.Lemmas.GitStarP
import RgVerif.Lemmas.GitEsc
import RgVerif.Model.GitignoreAnchors
/-
C04 — ignore files mean what git says.  Only the deciding statements; proofs in `Lemmas/Git*.lean`.

M: `Model/Gitignore.lean` (`addLine` = `GitignoreBuilder::add_line`, `matchedStripped` through the glob set of
C12, `matchedIgnore` = nearest ignore file first, `rgSkipped` = the walker's pruning descent).
S: `Spec/GitSpec.lean` (gitignore(5) / `dir.c` / `wildmatch.c`, validated against the real git on every run).

Structure of the argument: line level (`addline_wildmatch`: on the stated sub-grammar ripgrep's rewritten glob
selects the entries git's pattern selects) ⟹ file level (`C04_file`: last matching line wins on both sides;
ripgrep's side goes through `GlobSet` and therefore through C12) ⟹ tree level (`C04_tree`: nearest file
first, deeper overrides shallower, nothing beneath an ignored directory is visited).
-/
namespace RgVerif.Props.C04
open RgVerif RgVerif.Glob RgVerif.Gitignore

/-- **Within a file the last matching pattern wins, `!` re-includes, a trailing slash restricts to
directories**: for every list of compiled lines and every path outside the dots class, the answer obtained
through the glob set equals a scan of the lines from the last to the first. -/
theorem last_match_wins (G : List GiGlob) (p : Bytes) (isDir : Bool) (hd : lastCompDots p = false) :
    (matchedStripped G p isDir).toOpt =
      (G.reverse.find? fun g => g.hits p isDir).map fun g => !g.isWhitelist :=
  matchedStripped_last_wins G p isDir hd

/-- **Line level** (`okLineW`: `[!][/]core[/]` with `core` made of literal characters, `?`, single `*`, `\x`
escapes and `/` separators; case-sensitive, or case-insensitive without escapes): ripgrep's `add_line` rewrite
(`**/core` for a pattern without slash, the anchored glob otherwise, directory-only, whitelist; globset tokens
under `literal_separator`) and git's reading (basename rule with plain `fnmatch`, `WM_PATHNAME` wildmatch
otherwise, `MUSTBEDIR`, `NEGATIVE`) select the same entries with the same polarity, for every well-formed
relative path: wildcards do not cross `/`, a leading or inner slash anchors, a trailing slash restricts to
directories, `!` re-includes. -/
theorem addline_wildmatch (ci : Bool) (l : List Nat) (h : okLineW ci l = true) : LineAgree ci l :=
  lineAgree_of_okLineW ci l h

/-- **`**` spans whole directories** (`okLineS`: `[!][/]core[/]` with `core` of the form
[`**/`] S₀ (`/**/` Sᵢ)* [`/**`], the Sᵢ wildcard segments): ripgrep's tokens `RecursivePrefix`,
`RecursiveZeroOrMore` and its rewrite of a final `/**` to `/**/*` select exactly the entries git's `wildmatch`
selects for `**/`, `/**/` and a final `/**`, for every well-formed relative path. -/
theorem addline_wildmatch_dstar (ci : Bool) (l : List Nat) (h : okLineS ci l = true) : LineAgree ci l :=
  lineAgree_of_okLineS ci l h

/-- the literal sub-grammar of the first pass is contained in it -/
theorem addline_wildmatch_literal (l : List Nat) (h : okLine l = true) : LineAgree false l :=
  lineAgree_of_okLine l h

/-- **File level**: if every line of an ignore file means the same to ripgrep and to git, the file does. -/
theorem C04_file (ci : Bool) (lines : List (List Nat)) (h : ∀ l ∈ lines, LineAgree ci l) :
    FileAgree ci lines :=
  fileAgree_of_lines ci lines h

/-- **Tree level**: given file-level agreement for every directory, the entries ripgrep's walker skips are
exactly the entries git ignores — nearest ignore file first, a deeper file overrides a shallower one, and
nothing beneath an ignored directory is visited.  Any depth, any placement of ignore files. -/
theorem C04_tree (ci : Bool) (ign : List Bytes → List (List Nat)) (comps : List Bytes) (isDir : Bool)
    (hag : ∀ d, FileAgree ci (ign d)) (hwf : wfRel comps = true) :
    rgSkipped ci ign comps isDir = GitSpec.gitIgnored ci ign comps isDir :=
  rgSkipped_eq_gitIgnored ci ign comps isDir hag hwf

/-- **Trailing blanks** (`okLineB`: a line of either sub-grammar followed by unescaped spaces): both sides drop
them (`trim_right` unless the line ends in `\\ `; git's `trim_trailing_spaces`). -/
theorem addline_wildmatch_blanks (ci : Bool) (l : List Nat) (h : okLineB ci l = true) : LineAgree ci l :=
  lineAgree_of_okLineB ci l h

/-- **Bracket classes** (`okLineC`: `[!][/]core[/]` with `core` made of wildcard runs and classes `[…]`,
`[!…]`, `[^…]` listing single characters and ranges, `]` or `-` first, `-` last; `okLineCB`: the same followed
by unescaped spaces).  Guards, each one a recorded difference or a git peculiarity: the class must not accept
`/` (finding `bracket-class-admits-slash`); under case folding no single upper-case letter is listed (git
lower-cases the text but compares listed characters as written, so `[A]` matches nothing); no range starts at
NUL.  Then ripgrep's regex class and git's `wildmatch` class have the same members, negation and case folding
inside ranges included, and the line selects the same entries. -/
theorem addline_wildmatch_classes (ci : Bool) (l : List Nat) (h : (okLineC ci l || okLineCB ci l) = true) :
    LineAgree ci l := by
  rcases Bool.or_eq_true_iff.mp h with h | h
  · exact lineAgree_of_okLineC ci l h
  · exact lineAgree_of_okLineCB ci l h

/-- **`**` together with bracket classes** (`okLineSP`: core [`**/`] P₀ (`/**/` Pᵢ)* [`/**`] whose segments Pᵢ
are made of wildcard runs and classes, e.g. `**/*.[oa]`, `/src/**/[a-z]*.rs`, `build/**`; `okLineSPB`: the same
followed by unescaped spaces; class guards as in `addline_wildmatch_classes`). -/
theorem addline_wildmatch_dstar_classes (ci : Bool) (l : List Nat)
    (h : (okLineSP ci l || okLineSPB ci l) = true) : LineAgree ci l := by
  rcases Bool.or_eq_true_iff.mp h with h | h
  · exact lineAgree_of_okLineSP ci l h
  · exact lineAgree_of_okLineSPB ci l h

/-- **An escaped `!` or `#` at the start** (`okLineE`: `\!…` / `\#…`, the remainder in the wildcard
sub-grammar, optionally directory-only, optionally followed by unescaped spaces): ripgrep drops the backslash
before compiling, git's `wildmatch` reads `\!` / `\#` as the literal character — neither a negation nor a
comment, and the same entries are selected. -/
theorem addline_wildmatch_escaped_first (ci : Bool) (l : List Nat) (h : okLineE ci l = true) : LineAgree ci l :=
  lineAgree_of_okLineE ci l h

/-- lines the composition below accepts: the wildcard, the `**` and the class sub-grammars and their mixture
(optionally followed by blanks), `\!…` / `\#…`, comments, empty lines -/
def okFileLine (ci : Bool) (l : List Nat) : Bool :=
  okLineW ci l || okLineS ci l || okLineB ci l || okLineC ci l || okLineCB ci l || okLineSP ci l ||
    okLineSPB ci l || okLineE ci l || l.isEmpty || l.head? == some 35

theorem lineAgree_of_okFileLine (ci : Bool) (l : List Nat) (h : okFileLine ci l = true) : LineAgree ci l := by
  unfold okFileLine at h
  simp only [Bool.or_eq_true, beq_iff_eq] at h
  rcases h with ((((((((h | h) | h) | h) | h) | h) | h) | h) | h) | h
  · exact lineAgree_of_okLineW ci l h
  · exact lineAgree_of_okLineS ci l h
  · exact lineAgree_of_okLineB ci l h
  · exact lineAgree_of_okLineC ci l h
  · exact lineAgree_of_okLineCB ci l h
  · exact lineAgree_of_okLineSP ci l h
  · exact lineAgree_of_okLineSPB ci l h
  · exact lineAgree_of_okLineE ci l h
  · have : l = [] := by simpa using h
    subst this
    intro rel isDir _
    simp [mHit, sHit, addLine, startsWith, trimLine, endsWith, trimRight, GitSpec.parsePat]
  · intro rel isDir _
    cases l with
    | nil => simp at h
    | cons c rest =>
      simp only [List.head?_cons, Option.some.injEq] at h
      subst h
      simp [mHit, sHit, addLine, startsWith, List.isPrefixOf, GitSpec.parsePat]

/-- **C04** (partial, guard `okFileLine` on every line; with and without case-insensitive matching): for all
trees, any depth, and all placements of ignore files whose lines are in the wildcard sub-grammar, ripgrep
skips exactly what git ignores. -/
theorem C04_partial (ci : Bool) (ign : List Bytes → List (List Nat)) (comps : List Bytes) (isDir : Bool)
    (hok : ∀ d, ∀ l ∈ ign d, okFileLine ci l = true) (hwf : wfRel comps = true) :
    rgSkipped ci ign comps isDir = GitSpec.gitIgnored ci ign comps isDir :=
  C04_tree ci ign comps isDir
    (fun d => C04_file ci (ign d) (fun l hl => lineAgree_of_okFileLine ci l (hok d l hl))) hwf

/-- the unguarded line-level statement -/
def addline_wildmatch_full : Prop := ∀ (ci : Bool) (l : List Nat), LineAgree ci l

/-- witness: the line `a[!b]c` and the file `a/c` — ripgrep's glob `**/a[!b]c` is the regex
`(?:/?|.*/)a[^b]c`, whose negated class matches the path separator, so the whole path `a/c` matches; git
compares a pattern without `/` with the entry's name `c` only (and a bracket expression never matches `/`).
This is the recorded finding `bracket-class-admits-slash`, which cannot be repaired without breaking the
unedited test suite.  (The earlier witnesses — the lone `!`, the lone escaped slash, a trailing tab — were repaired in
/repo by 9332074, d16e9e9 and 5031338; the model mirrors the repairs.) -/
theorem addline_wildmatch_full_fails : ¬ addline_wildmatch_full := by
  intro h
  have := h false [97, 91, 33, 98, 93, 99] [[97], [99]] false (by decide)
  revert this
  have hm : mHit false [97, 91, 33, 98, 93, 99] (joinPath [[97], [99]]) false = some true := by decide
  have hs : sHit false [97, 91, 33, 98, 93, 99] [[97], [99]] false = none := by
    simp [sHit, GitSpec.parsePat, GitSpec.patMatches, GitSpec.trimSpaces, GitSpec.trimSpaces.go,
      GitSpec.stripNeg, GitSpec.stripDir, GitSpec.stripLead, GitSpec.wm]
  rw [hm, hs]
  simp

/-- second witness: the line `/b**` and the file `b/x` — git's `match_pathname` compares the literal prefix `b`
on its own and hands `**` against `/x` to `wildmatch`, where the `**` now stands at the start of the pattern
and spans directories; ripgrep (like gitignore(5): "other consecutive asterisks are considered regular
asterisks") reads `b**` as `b*`, which does not cross `/`.  Visible when such a line is negated
(`*/x` then `!/b**`: git keeps `b/x`, ripgrep skips it).  Recorded finding `literal-prefix-then-double-star`. -/
theorem addline_wildmatch_prefix_dstar_fails : ¬ LineAgree false [47, 98, 42, 42] := by
  intro h
  have := h [[98], [120]] false (by decide)
  revert this
  have hm : mHit false [47, 98, 42, 42] (joinPath [[98], [120]]) false = none := by decide
  have hs : sHit false [47, 98, 42, 42] [[98], [120]] false = some true := by
    simp [sHit, GitSpec.parsePat, GitSpec.patMatches, GitSpec.trimSpaces, GitSpec.trimSpaces.go,
      GitSpec.stripNeg, GitSpec.stripDir, GitSpec.stripLead, GitSpec.matchPathname, GitSpec.simpleLen,
      GitSpec.isGlobSpecial, GitSpec.eqFold, GitSpec.joinComps, GitSpec.wm, GitSpec.skipWhile]
  rw [hm, hs]
  simp

/-- regression example for the repaired finding F34 (5031338): the line `a<TAB>` is the pattern `a<TAB>` for
ripgrep as for git — it does not select the file `a`, it does select the file `a<TAB>`; and the line is inside
the proved sub-grammar now (only spaces are trimmed). -/
example : mHit false [97, 9] (joinPath [[97]]) false = none ∧
    mHit false [97, 9] (joinPath [[97, 9]]) false = some true ∧ okLineW false [97, 9] = true ∧
    okLineB false [97, 9, 32, 32] = true := by decide

/-- the repaired cases: a lone `!` (or `/`, or `!/`) and a lone escaped slash carry no pattern for ripgrep either -/
example : (match addLine false [33] with | .skip => true | _ => false) = true ∧
          (match addLine false [47] with | .skip => true | _ => false) = true ∧
          (match addLine false [33, 47] with | .skip => true | _ => false) = true ∧
          (match addLine false [92, 47] with | .skip => true | _ => false) = true ∧
          (match addLine false [33, 92, 47] with | .skip => true | _ => false) = true := by decide

/-- the guards are satisfiable by non-trivial lines: `!/a.b/c-d/` (negated, anchored, two components, a name
with a dot and one with a dash, directory-only), `A.` (a name ending in `.`), and wildcard lines -/
example : okLine [33, 47, 97, 46, 98, 47, 99, 45, 100, 47] = true ∧ okLine [65, 46] = true ∧
    -- `!/a*/?.\*b/`, `*.A` case-insensitively, `a?b/c*`
    okLineW false [33, 47, 97, 42, 47, 63, 46, 92, 42, 98, 47] = true ∧ okLineW true [42, 46, 65] = true ∧
    okLineW true [97, 63, 98, 47, 99, 42] = true ∧
    -- `a/**`, `**/a*`, `!/a/**/b?/`, `**/x/**` case-insensitively
    okLineS false [97, 47, 42, 42] = true ∧ okLineS false [42, 42, 47, 97, 42] = true ∧
    okLineS false [33, 47, 97, 47, 42, 42, 47, 98, 63, 47] = true ∧
    okLineS true [42, 42, 47, 120, 47, 42, 42] = true ∧
    -- `*.a  ` (two trailing blanks)
    okLineB false [42, 46, 97, 32, 32] = true := by decide

/-- and the composed statement is exercised by a two-level tree: root ignores `b` and `/d/`, `a/.gitignore`
re-includes `b`; `a/b` is kept, `b` and `d/x` are skipped -/
example :
    let ign : List Bytes → List (List Nat) := fun d =>
      if d == [] then [[98], [47, 100, 47]] else if d == [[97]] then [[33, 98]] else []
    rgSkipped false ign [[97], [98]] false = false ∧ rgSkipped false ign [[98]] false = true ∧
    rgSkipped false ign [[100], [120]] false = true := by decide

end RgVerif.Props.C04
