import RgVerif.Lemmas.ReplaceFold
/-
C19 — replacement output equals the regex library's replace-all of each matching line.
Only the theorems that decide the property live here; helper lemmas are in `Lemmas/`.

Model  : `Interp.interpolate` (crates/matcher/src/interpolate.rs), `Matcher.iterGo`
         (Matcher::try_captures_iter_at), `Replace.replaceWithCapturesInContext`,
         `Replace.replaceAllLine`, `Replace.printMatched` (crates/printer/src/util.rs, standard.rs).
Spec   : `ReplaceSpec.expand` (regex crate's template grammar), `ReplaceSpec.allMatches`
         (regex crate's match iterator), `ReplaceSpec.replaceAllSpec`.
-/
namespace RgVerif.Props.C19
open RgVerif RgVerif.Interp RgVerif.ReplaceSpec RgVerif.Matcher RgVerif.Replace
open RgVerif.Lemmas.Interp RgVerif.Lemmas.ReplaceIter RgVerif.Lemmas.ReplaceFold

/-! ## 1. Template expansion -/

/-- Full statement: ripgrep's interpolation is the regex crate's expansion for every template. -/
def interpolate_eq_spec_full : Prop :=
  ∀ (env : Env) (t : Bytes), EnvOk env → interpolate env t = expand env t

/-- It fails on the current tree (finding F12): `${}` is printed literally. -/
theorem interpolate_eq_spec_full_fails : ¬ interpolate_eq_spec_full := by
  intro h
  let env : Env := { group := fun _ => none, nameIdx := fun _ => none }
  have henv : EnvOk env := ⟨fun _ _ => rfl, fun _ _ => rfl⟩
  have := h env [36, 123, 125] henv
  have h1 : findCapRef [36, 123, 125] = none := by decide
  have h2 : refAt [36, 123, 125] = some (toRefUsize [], 3) := by decide
  rw [interpolate_d_none env [123, 125] (by intro r' hr; cases hr) h1,
      interpolate_other env [125] (by decide), interpolate_other env [] (by decide), interpolate_nil] at this
  unfold expand at this
  rw [tokens_d_some [123, 125] (by intro r' hr; cases hr) h2] at this
  simp [tokens_nil, Tok.out, Env.expand, toRefUsize, parseBounded, env] at this

/-- **Proved part**: for every template in which each closed `${…}` holds a non-empty name over
`[0-9A-Za-z_]` (`braceOk`, decidable), and every capture environment of a real regex (`EnvOk`),
numbered and named references, braces and `$$` expand exactly as the regex crate defines. -/
theorem interpolate_eq_spec (env : Env) (henv : EnvOk env) (t : Bytes) (hok : braceOk t = true) :
    interpolate env t = expand env t :=
  interpolate_eq_expand_aux env henv t.length t (Nat.le_refl _) hok

/-- Non-vacuity: the guard admits templates using every form of reference
(`a$1${name}$$${2}x`), and a non-trivial environment satisfies `EnvOk`. -/
example : braceOk [97, 36, 49, 36, 123, 110, 97, 109, 101, 125, 36, 36, 36, 123, 50, 125, 120] = true ∧
    EnvOk { group := fun i => if i < 3 then some [65 + i] else none,
            nameIdx := fun n => if n = [110, 97, 109, 101] then some 2 else none } := by
  refine ⟨by decide, ?_, ?_⟩
  · intro n hn
    have : ¬ n < 3 := by unfold u32Max at hn; omega
    simp [this]
  · intro name h
    by_cases hname : name = [110, 97, 109, 101]
    · subst hname; revert h; decide
    · simp [hname]

/-- Templates without `$` are copied verbatim. -/
theorem interpolate_no_dollar (env : Env) (t : Bytes) (h : 36 ∉ t) : interpolate env t = t := by
  induction t with
  | nil => exact interpolate_nil env
  | cons b rest ih =>
    have hb : b ≠ 36 := by intro hb; apply h; simp [hb]
    have hr : 36 ∉ rest := by intro hr; apply h; simp [hr]
    rw [interpolate_other env rest hb, ih hr]

/-! ## 2. Match iteration and replace-all -/

/-- The matches handed to the callback by `Matcher::captures_iter_at` are exactly those of the regex
crate's iterator (leftmost, non-overlapping, an empty match never directly after another match),
for every matcher whose answers are sane and deterministic. -/
theorem iteration_eq_regex_iterator {capsAt : Nat → Option Caps} {len : Nat} (hs : Sane capsAt len)
    (start : Nat) : collect capsAt len (len + 2) start none [] = allMatches capsAt len start :=
  collect_eq_allMatches hs start

/-- The printer's replacement buffer for the range `[rs, re)` when the haystack does not reach beyond the
range (`|bytes| ≤ re`: the line-oriented branch cuts it there; the multi-line branch, where a match may reach
beyond `re` and is clamped, is `Props/C19Multi.lean`): every match the printer keeps (`keep`:
it starts before `re`, or exactly at `re` when the range ends the haystack without a terminator) is
replaced by the interpolated template, everything else is copied verbatim. -/
theorem replace_in_context_eq (capsAt : Nat → Option Caps) (names : List (Bytes × Nat))
    (bytes : Bytes) (rs re : Nat) (atEnd : Bool) (tmpl : Bytes) (hs : Sane capsAt bytes.length)
    (hre : bytes.length ≤ re) :
    (replaceWithCapturesInContext capsAt names bytes rs re atEnd tmpl).dst =
      replaceAllSpec bytes (fun c => interpolate (envOf bytes names c) tmpl)
        ((allMatches capsAt bytes.length rs).takeWhile (keep re atEnd))
        rs (min bytes.length re) :=
  replace_eq_spec capsAt names bytes rs re atEnd tmpl hs hre

/-- **Line level, reference grammar** (after the repair of F6 the end-of-line case needs no guard):
when the range reaches at least to the end of the haystack — the line's terminator was cut off
(`bytes.length < re`) or the line has none and the flag computed by `is_at_unterminated_end` is set —
the buffer is the regex crate's replace-all of the haystack from `rs` on, over **all** its matches. -/
theorem C19_buffer (capsAt : Nat → Option Caps) (names : List (Bytes × Nat))
    (bytes : Bytes) (rs re : Nat) (atEnd : Bool) (tmpl : Bytes) (hs : Sane capsAt bytes.length)
    (hend : bytes.length < re ∨ (bytes.length = re ∧ atEnd = true)) (hok : braceOk tmpl = true)
    (henv : ∀ c, EnvOk (envOf bytes names c)) :
    (replaceWithCapturesInContext capsAt names bytes rs re atEnd tmpl).dst =
      replaceAllSpec bytes (fun c => expand (envOf bytes names c) tmpl)
        (allMatches capsAt bytes.length rs) rs bytes.length := by
  rw [replace_in_context_eq capsAt names bytes rs re atEnd tmpl hs (by omega)]
  have hall : ∀ c ∈ allMatches capsAt bytes.length rs, keep re atEnd c = true := by
    intro c hc
    obtain ⟨p, hp⟩ := specIter_mem hc
    have h1 := hs.le p c hp
    have h2 := hs.bound p c hp
    unfold keep
    rcases hend with h | ⟨h, ha⟩
    · have : (sp c).s < re := by omega
      simp [this]
    · subst ha
      by_cases hlt : (sp c).s < re
      · simp [hlt]
      · have : (sp c).s = re := by omega
        simp [this]
  rw [takeWhile_all _ _ hall]
  have hmin : min bytes.length re = bytes.length := by omega
  rw [hmin]
  have hexp : (fun c => interpolate (envOf bytes names c) tmpl) =
      fun c => expand (envOf bytes names c) tmpl := by
    funext c; exact interpolate_eq_spec _ (henv c) tmpl hok
  rw [hexp]

/-- **C19 for a line of a line-oriented search** (`Replacer::replace_all`, non-multi-line branch): for the
range `[rs, re)` of `haystack`, `rs ≤ re ≤ |haystack|`, the buffer is the replace-all — reference template
grammar, every match, unmatched text intact — of the line's content `line` (the range without its terminator,
searched as a haystack of its own, which is how the searcher judged the line), followed by the line's own
terminator bytes, untouched. No guard on the line: terminated or not, first in the buffer or not. -/
theorem C19_line (t : LineTerm) (capsAtOf : Bytes → Nat → Option Caps) (names : List (Bytes × Nat))
    (haystack : Bytes) (rs re : Nat) (tmpl : Bytes)
    (hrange : rs ≤ re ∧ re ≤ haystack.length)
    (hs : ∀ hay, Sane (capsAtOf hay) hay.length)
    (hok : braceOk tmpl = true) (henv : ∀ hay c, EnvOk (envOf hay names c))
    (line : Bytes) (hline : line = slice haystack rs (trimLineTerminator t haystack rs re)) :
    (replaceAllLine t capsAtOf names haystack rs re tmpl).dst =
      replaceAllSpec line (fun c => expand (envOf line names c) tmpl)
        (allMatches (capsAtOf line) line.length 0) 0 line.length
      ++ slice haystack (trimLineTerminator t haystack rs re) re := by
  unfold replaceAllLine
  simp only
  rw [← hline]
  congr 1
  apply C19_buffer (capsAtOf line) names line 0 (re - rs) _ tmpl (hs line) _ hok (henv line)
  have hlen : line.length = min (trimLineTerminator t haystack rs re) haystack.length - rs := by
    rw [hline]; simp [slice]
  rcases trim_cases t haystack rs re with ⟨hlt, hrs⟩ | ⟨heq, hns⟩
  · left
    omega
  · right
    have hl : line.length = re - rs := by omega
    refine ⟨hl, ?_⟩
    have hline' : line = (haystack.take re).drop rs := by rw [hline, heq]; rfl
    have h := atEnd_of_unterminated t line 0 line.length ⟨by omega, by omega⟩
      (by rw [List.take_length, hline']; exact hns)
    rw [List.take_length] at h
    rw [← hl]; exact h

/-- Lines without a match are never altered: with no match the buffer is the range itself. -/
theorem unmatched_text_intact (capsAt : Nat → Option Caps) (names : List (Bytes × Nat))
    (bytes : Bytes) (rs re : Nat) (atEnd : Bool) (tmpl : Bytes) (hs : Sane capsAt bytes.length)
    (hre : bytes.length ≤ re) (hnone : allMatches capsAt bytes.length rs = []) :
    (replaceWithCapturesInContext capsAt names bytes rs re atEnd tmpl).dst =
      slice bytes rs (min bytes.length re) := by
  rw [replace_in_context_eq capsAt names bytes rs re atEnd tmpl hs hre, hnone]
  simp [replaceAllSpec, slice]

/-- the matcher of the pattern `a*` on the haystack `b`: an empty match at 0 and at 1 -/
def emptyEverywhere : Nat → Option Caps :=
  fun p => if p ≤ 1 then some ⟨[some ⟨p, p⟩]⟩ else none

theorem emptyEverywhere_sane : Sane emptyEverywhere 1 := by
  constructor
  · intro p c h; unfold emptyEverywhere at h; split at h <;> simp_all [sp, Caps.get]; subst h; simp
  · intro p c h; unfold emptyEverywhere at h; split at h <;> simp_all [sp, Caps.get]; subst h; simp
  · intro p c h; unfold emptyEverywhere at h; split at h <;> simp_all [sp, Caps.get]; subst h; simpa
  · intro p p' c h h1 h2
    unfold emptyEverywhere at h ⊢
    split at h
    · injection h with h; subst h
      simp [sp, Caps.get] at h2
      have : p' = p := by omega
      subst this; simp [*]
    · simp at h

/-- Non-vacuity and regression witness for F6 (repaired by `fix:` commits bde00ef, 5c7b049): `a*` on the
unterminated line `b` with template `X` gives `XbX` — the empty match at the very end is replaced
(before the repair the code, and the model of it, produced `Xb`); all hypotheses of `C19_buffer` hold. -/
example :
    Sane emptyEverywhere 1 ∧ isAtUnterminatedEnd (.byte 10) [98] 0 1 = true ∧ braceOk [88] = true ∧
    (replaceWithCapturesInContext emptyEverywhere [] [98] 0 1 true [88]).dst = [88, 98, 88] := by
  refine ⟨emptyEverywhere_sane, by decide, by decide, ?_⟩
  rw [replace_in_context_eq emptyEverywhere [] [98] 0 1 true [88] emptyEverywhere_sane (by decide)]
  have hexp : (fun c => interpolate (envOf [98] [] c) [88]) = fun _ => [88] := by
    funext c; exact interpolate_no_dollar _ [88] (by decide)
  rw [hexp]
  decide

/-! ## 3. Lines without a match, context lines -/

/-- With no match from `rs` on, `replace_with_captures_in_context` copies the range and records no expansion. -/
theorem no_match_state (capsAt : Nat → Option Caps) (names : List (Bytes × Nat))
    (bytes : Bytes) (rs re : Nat) (atEnd : Bool) (tmpl : Bytes) (hs : Sane capsAt bytes.length)
    (hnone : allMatches capsAt bytes.length rs = []) :
    replaceWithCapturesInContext capsAt names bytes rs re atEnd tmpl =
      ⟨rs, slice bytes rs (min bytes.length re), []⟩ := by
  rw [replace_unfold]
  simp only
  rw [iterGo_eq_fold, collect_eq_allMatches hs rs, hnone]
  simp [foldUntil]

/-- **Lines without a match are never altered** (printer level): if the line `[rs, re)` has no match — in its
content, searched as a haystack of its own — the only record written for it is the line itself, completed
with the configured terminator if it has none, whatever `--only-matching` / per-match say. This is the case of
every matched line of an inverted search. -/
theorem C19_unmatched_line (t : LineTerm) (only perMatch : Bool) (capsAtOf : Bytes → Nat → Option Caps)
    (names : List (Bytes × Nat)) (haystack : Bytes) (rs re : Nat) (tmpl : Bytes)
    (hs : ∀ hay, Sane (capsAtOf hay) hay.length)
    (hnone : allMatches (capsAtOf (slice haystack rs (trimLineTerminator t haystack rs re)))
      (slice haystack rs (trimLineTerminator t haystack rs re)).length 0 = []) :
    printRecords t only perMatch (slice haystack rs re) (replaceAllLine t capsAtOf names haystack rs re tmpl) =
      [⟨none, completeLine t (slice haystack rs re)⟩] := by
  unfold replaceAllLine
  simp only
  rw [no_match_state _ names _ 0 (re - rs) _ tmpl (hs _) hnone]
  simp [printRecords]

/-- Every line the printer is handed, by either callback: a context line of a non-inverted search is written as it
is; any line without a match (see `C19_unmatched_line`) is written as it is. -/
theorem C19_no_match_unaltered (t : LineTerm) (only perMatch invert : Bool) (kind : LineKind)
    (capsAtOf : Bytes → Nat → Option Caps) (names : List (Bytes × Nat))
    (haystack : Bytes) (rs re : Nat) (tmpl : Bytes)
    (hs : ∀ hay, Sane (capsAtOf hay) hay.length)
    (hM : kind = .matched →
      allMatches (capsAtOf (slice haystack rs (trimLineTerminator t haystack rs re)))
        (slice haystack rs (trimLineTerminator t haystack rs re)).length 0 = [])
    (hC : kind = .context → invert = true →
      allMatches (capsAtOf (slice (slice haystack rs re) 0
          (trimLineTerminator t (slice haystack rs re) 0 (slice haystack rs re).length)))
        (slice (slice haystack rs re) 0
          (trimLineTerminator t (slice haystack rs re) 0 (slice haystack rs re).length)).length 0 = []) :
    sinkLine t only perMatch invert kind capsAtOf names haystack rs re tmpl =
      [⟨none, completeLine t (slice haystack rs re)⟩] := by
  unfold sinkLine
  cases kind with
  | matched =>
    simp only
    exact C19_unmatched_line t only perMatch capsAtOf names haystack rs re tmpl hs (hM rfl)
  | context =>
    cases invert with
    | false => simp
    | true =>
      simp only [↓reduceIte]
      have h := C19_unmatched_line t only perMatch capsAtOf names (slice haystack rs re) 0
        (slice haystack rs re).length tmpl hs (hC rfl rfl)
      have hself : ∀ b : Bytes, slice b 0 b.length = b := by intro b; simp [slice]
      rw [hself (slice haystack rs re)] at h
      exact h

/-- Non-vacuity: a matcher that never matches satisfies the hypotheses (the line `b\n`, no match). -/
example : sinkLine (.byte 10) true false true .context (fun _ _ => none) [] [98, 10] 0 2 [88] =
    [⟨none, [98, 10]⟩] := by decide

end RgVerif.Props.C19
