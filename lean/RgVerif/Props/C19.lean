import RgVerif.Spec.ReplaceAll
import RgVerif.Model.Replace
/-
C19 — property theorems (only statements that decide the property live here).
-/
namespace RgVerif.Props.C19
open RgVerif RgVerif.Interp RgVerif.ReplaceSpec

/-- Templates without `$` are copied verbatim. -/
theorem interpolate_no_dollar (env : Env) (t : Bytes) (h : 36 ∉ t) : interpolate env t = t := by
  induction t with
  | nil => simp [interpolate]
  | cons b rest ih =>
    have hb : b ≠ 36 := by intro hb; apply h; simp [hb]
    have hr : 36 ∉ rest := by intro hr; apply h; simp [hr]
    unfold interpolate
    split
    · simp at *
    · simp_all
    · simp_all
    · simp_all

end RgVerif.Props.C19
