import RgVerif.Lemmas.SearcherML
import RgVerif.Lemmas.SearcherMLTop
import RgVerif.Lemmas.SearcherMLInv
/-
C13 — multi-line search reports exactly the lines covered by the pattern's matches.

Model: `Model/Glue.lean` (`multiLine` = `MultiLine::run`, function by function).  Spec: `Spec/MultiLine.lean`
(`mlSpec`: successive matches over the whole input → `locate` → merge touching ranges → blocks; inversion =
the other lines; context by the grep model).  Proofs: `Lemmas/SearcherML*.lean` (`SearcherMLTop.lean` for the
theorem with context).
-/
namespace RgVerif.Props.C13
open RgVerif RgVerif.Matcher RgVerif.Lines RgVerif.Searcher RgVerif.GrepSpec RgVerif.MLSpec

/-- **Look-around sees the whole input** (the repaired F7): when the search resumes at `pos`, the matcher is
given the whole input and the position, not the rest of the input. -/
theorem C13_whole_input (m : MatcherI) (inp : Bytes) (st : Core) : mlFind m inp st = m.findAt inp st.pos := rfl

/-- **C13 without context** (A = B = 0, no passthru, no inversion, line numbers off), for every matcher and
every input: the sink is told `begin`, then exactly one `matched` callback per block — the blocks being the
successive leftmost matches of the pattern over the whole input (`mlMatches`), each mapped to the lines it
overlaps (`locate`), ranges that touch merged, in order — and `finish`; no line is delivered twice because
merged blocks do not touch. (An empty range ends the delivery, as in the code; it can only come from a match
behind the last terminator.) -/
theorem C13_nocontext (cfg : Config) (hc : PlainCfg cfg) (m : MatcherI) (inp : Bytes) :
    ∃ bc, (multiLine cfg m allCont inp).events =
        Event.begin :: (codeBlocks cfg m inp).map (blockEv inp) ++ [Event.finish bc none] ∧
      (multiLine cfg m allCont inp).result = .ok () :=
  multiLine_plain hc m inp

/-- **Dropping empty blocks = stopping at the first empty block.** The specification filters the merged line
ranges (`mlBlocks`), the code stops as soon as it is about to sink an empty one (`codeBlocks`, `takeWhile`); for a
matcher whose spans lie inside the input at or after the search position only the last merged range can be empty
(it comes from a match behind the last terminator), so the two lists are equal. -/
theorem C13_blocks_filter_takeWhile (cfg : Config) (m : MatcherI) (inp : Bytes) (hs : SpanSane m inp) :
    mlBlocks cfg m inp = codeBlocks cfg m inp :=
  mlBlocks_eq_codeBlocks cfg hs

/-- **C13 with context, passthru and line numbers** (no inversion, binary detection off), for every input and
every matcher whose spans lie inside the input at or after the search position: the sink is told exactly the
multi-line model `mlSpec` — the grep model (order, context windows, separators, line numbers, byte offsets, byte
count) for the selection "line covered by a block", every block delivered as one `matched` callback that carries
the line number and offset of its first line. (`passthru` excludes after-context, as `SearcherBuilder::passthru`
enforces.) The proof keeps a block-level invariant: the real log is `coalesce` of a shadow log in which the block
is delivered line by line, and the shadow log is the grep model's log for the lines decided so far. -/
theorem C13_context (cfg : Config) (m : MatcherI) (inp : Bytes) (hinv : cfg.invertMatch = false)
    (hbin : cfg.binary = .none) (hpt : cfg.passthru = true → cfg.afterContext = 0) (hs : SpanSane m inp) :
    (multiLine cfg m allCont inp).events = mlSpec cfg m inp ∧ (multiLine cfg m allCont inp).result = .ok () :=
  multiLine_ctx cfg m inp hinv hbin hpt hs

/-- **C13 with inversion** (any context, passthru, line numbers; binary detection off), same matcher contract: the
sink is told the grep model for the lines that lie outside the line range of every match *the inverted scan finds*
(`mlSpecInv`; the scan resumes at the end of the last line of a match). This is the complement of the covered
lines — `mlSpec` — exactly when the scan misses no match (`invCoverSame`); finding F19 is a case where it does. -/
theorem C13_inverted (cfg : Config) (m : MatcherI) (inp : Bytes) (hinv : cfg.invertMatch = true)
    (hbin : cfg.binary = .none) (hpt : cfg.passthru = true → cfg.afterContext = 0) (hs : SpanSane m inp) :
    (multiLine cfg m allCont inp).events = mlSpecInv cfg m inp ∧ (multiLine cfg m allCont inp).result = .ok () :=
  multiLine_inverted cfg m inp hinv hbin hpt hs

theorem mlSpecInv_eq_mlSpec (cfg : Config) (m : MatcherI) (inp : Bytes) (hinv : cfg.invertMatch = true)
    (h : invCoverSame cfg m inp = true) : mlSpecInv cfg m inp = mlSpec cfg m inp := by
  have h' := eq_of_beq h
  cases cfg
  dsimp only at hinv
  subst hinv
  unfold mlSpecInv mlSpec
  dsimp only at h' ⊢
  rw [h']
  rfl

/-- the decidable guard of `C13_partial`: binary detection off, passthru without after-context, a matcher table with
sane spans, and — with inversion — the inverted scan selects the lines the specification selects -/
def guard (cfg : Config) (m : MatcherI) (inp : Bytes) : Bool :=
  decide (cfg.binary = .none) && (!cfg.passthru || cfg.afterContext == 0) && spanSaneB m inp &&
    (!cfg.invertMatch || invCoverSame cfg m inp)

/-- **C13 under the guard**: the searcher delivers the multi-line model. -/
theorem C13_partial (cfg : Config) (m : MatcherI) (inp : Bytes) (hg : guard cfg m inp = true) :
    (multiLine cfg m allCont inp).events = mlSpec cfg m inp := by
  unfold guard at hg
  simp only [Bool.and_eq_true, Bool.not_eq_true', decide_eq_true_eq, Bool.or_eq_true, beq_iff_eq] at hg
  obtain ⟨⟨⟨h2, h3⟩, h4⟩, h5⟩ := hg
  have hpt : cfg.passthru = true → cfg.afterContext = 0 := by
    intro hp
    rcases h3 with h | h
    · rw [hp] at h; exact Bool.noConfusion h
    · exact h
  cases hinv : cfg.invertMatch with
  | false => exact (C13_context cfg m inp hinv h2 hpt (spanSaneB_sound h4)).1
  | true =>
    rcases h5 with h | h
    · rw [hinv] at h; exact Bool.noConfusion h
    · rw [(C13_inverted cfg m inp hinv h2 hpt (spanSaneB_sound h4)).1]
      exact mlSpecInv_eq_mlSpec cfg m inp hinv h

/-- the full statement: for every configuration the multi-line searcher delivers the multi-line model -/
def C13_full : Prop :=
  ∀ (cfg : Config) (m : MatcherI) (inp : Bytes), cfg.binary = .none →
    (multiLine cfg m allCont inp).events = mlSpec cfg m inp

/-- the answers of `a\nb|b\nc` on `a\nb b\nc\n` -/
def mF19 : MatcherI :=
  MatcherI.ofFindAt fun _ p => if p = 0 then some ⟨0, 3⟩ else if p ≤ 4 then some ⟨4, 7⟩ else none
def inpF19 : Bytes := [97, 10, 98, 32, 98, 10, 99, 10]
def cfgInv : Config := { multiLine := true, invertMatch := true }

/-- **Inversion is not the complement** (finding F19): the inverted scan resumes at the end of the *lines* of a
match, so the match `b\nc` that starts inside the last line of `a\nb` is never found and line 3 is reported
as not matching, although a match covers it (`rg -U 'a\nb|b\nc'` and `rg -U -v` of the same both print line 3). -/
theorem C13_full_fails : ¬ C13_full := by
  intro h
  have := h cfgInv mF19 inpF19 rfl
  revert this
  decide

/-- the answers of `^$` on `xa\nxa \n`: one empty match behind the last terminator -/
def mF20 : MatcherI := MatcherI.ofFindAt fun _ p => if p ≤ 7 then some ⟨7, 7⟩ else none
def inpF20 : Bytes := [120, 97, 10, 120, 97, 32, 10]
def cfgB2 : Config := { multiLine := true, beforeContext := 2 }

/-- The former finding F20/F27 (before-context delivered for the dropped empty match behind the last
terminator; repaired in /repo 563f90b, mirrored in the model): on the witness the model now equals the spec. -/
example : (multiLine cfgB2 mF20 allCont inpF20).events = mlSpec cfgB2 mF20 inpF20 := by decide

/-! ### Non-vacuity of `C13_nocontext`: `a\n` on `c\na\na\nc\n` — two touching matches, one block of two lines -/

def cfgPlain : Config := { multiLine := true, lineNumber := false }
def mAnl : MatcherI := MatcherI.ofFindAt fun _ p => if p ≤ 2 then some ⟨2, 4⟩ else if p ≤ 4 then some ⟨4, 6⟩ else none
def inp4 : Bytes := [99, 10, 97, 10, 97, 10, 99, 10]

example : PlainCfg cfgPlain := ⟨rfl, rfl, rfl, rfl, rfl, rfl⟩
example : codeBlocks cfgPlain mAnl inp4 = [⟨2, 6⟩] := by decide
example : (multiLine cfgPlain mAnl allCont inp4).events =
    [.begin, .matched none 2 [97, 10, 97, 10], .finish 8 none] := by decide
example : mlSpec cfgPlain mAnl inp4 = [.begin, .matched none 2 [97, 10, 97, 10], .finish 8 none] := by decide

/-! ### Non-vacuity of `C13_context` / `C13_partial`: context 1/1 and line numbers around a two-line block
(`b\nc` on `a\nb\nc\nd\ne\nf\n`, then `f` alone — the break between the two groups, the block numbered by its
first line) -/

def cfgCtx : Config := { multiLine := true, beforeContext := 1, afterContext := 1, lineNumber := true }
def mBC : MatcherI :=
  MatcherI.ofFindAt fun _ p => if p ≤ 2 then some ⟨2, 5⟩ else if p ≤ 10 then some ⟨10, 11⟩ else none
def inp6 : Bytes := [97, 10, 98, 10, 99, 10, 100, 10, 101, 10, 102, 10]

example : guard cfgCtx mBC inp6 = true := by decide
example : mlSpec cfgCtx mBC inp6 =
    [.begin, .context .before (some 1) 0 [97, 10], .matched (some 2) 2 [98, 10, 99, 10],
     .context .after (some 4) 6 [100, 10], .context .before (some 5) 8 [101, 10], .matched (some 6) 10 [102, 10],
     .finish 12 none] := by decide
example : (multiLine cfgCtx mBC allCont inp6).events = mlSpec cfgCtx mBC inp6 :=
  C13_partial cfgCtx mBC inp6 (by decide)

/-! ### Non-vacuity with inversion: `b\nc` on six lines, `-v -A1`: lines 1, 4–6 selected, line 2 is not context
(it precedes the first selected line after it by more than the window: no before-context configured) -/

def cfgInvA : Config := { multiLine := true, invertMatch := true, afterContext := 1, lineNumber := true }
def mBC1 : MatcherI := MatcherI.ofFindAt fun _ p => if p ≤ 2 then some ⟨2, 5⟩ else none

example : guard cfgInvA mBC1 inp6 = true := by decide
example : mlSpec cfgInvA mBC1 inp6 =
    [.begin, .matched (some 1) 0 [97, 10], .context .after (some 2) 2 [98, 10], .contextBreak,
     .matched (some 4) 6 [100, 10], .matched (some 5) 8 [101, 10], .matched (some 6) 10 [102, 10],
     .finish 12 none] := by decide
example : (multiLine cfgInvA mBC1 allCont inp6).events = mlSpec cfgInvA mBC1 inp6 :=
  C13_partial cfgInvA mBC1 inp6 (by decide)

/-- on the F19 witness the guard is false (the inverted scan misses the second match), and the searcher delivers
`mlSpecInv`, not `mlSpec` -/
example : guard cfgInv mF19 inpF19 = false := by decide
example : (multiLine cfgInv mF19 allCont inpF19).events = mlSpecInv cfgInv mF19 inpF19 :=
  (C13_inverted cfgInv mF19 inpF19 rfl rfl (fun h => by cases h) (spanSaneB_sound (by decide))).1

end RgVerif.Props.C13
