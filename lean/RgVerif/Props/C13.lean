import RgVerif.Lemmas.SearcherML
/-
C13 — multi-line search reports exactly the lines covered by the pattern's matches.

Model: `Model/Glue.lean` (`multiLine` = `MultiLine::run`, function by function).  Spec: `Spec/MultiLine.lean`
(`mlSpec`: successive matches over the whole input → `locate` → merge touching ranges → blocks; inversion =
the other lines; context by the grep model).  Proofs: `Lemmas/SearcherML.lean`.
-/
namespace RgVerif.Props.C13
open RgVerif RgVerif.Matcher RgVerif.Lines RgVerif.Searcher RgVerif.GrepSpec RgVerif.MLSpec

/-- **Look-around sees the whole input** (the repaired F7): when the search resumes at `pos`, the matcher is
given the whole input and the position, not the rest of the input. -/
theorem C13_whole_input (m : MatcherI) (inp : Bytes) (st : Core) : mlFind m inp st = m.findAt inp st.pos := rfl

/-- **C13 without context** (A = B = 0, no passthru, no inversion, line numbers off), for every matcher and
every input: the sink is told `begin`, then exactly one `matched` callback per block — the blocks being the
successive leftmost matches of the pattern over the whole input (`mlMatches`), each mapped to the lines it
overlaps (`locate`), ranges that touch merged, in order — and `finish`; no line is delivered twice because
merged blocks do not touch. (An empty range ends the delivery, as in the code; it can only come from a match
behind the last terminator.) -/
theorem C13_nocontext (cfg : Config) (hc : PlainCfg cfg) (m : MatcherI) (inp : Bytes) :
    ∃ bc, (multiLine cfg m allCont inp).events =
        Event.begin :: (codeBlocks cfg m inp).map (blockEv inp) ++ [Event.finish bc none] ∧
      (multiLine cfg m allCont inp).result = .ok () :=
  multiLine_plain hc m inp

/-- the full statement: for every configuration the multi-line searcher delivers the multi-line model -/
def C13_full : Prop :=
  ∀ (cfg : Config) (m : MatcherI) (inp : Bytes), cfg.binary = .none →
    (multiLine cfg m allCont inp).events = mlSpec cfg m inp

/-- the answers of `a\nb|b\nc` on `a\nb b\nc\n` -/
def mF19 : MatcherI :=
  MatcherI.ofFindAt fun _ p => if p = 0 then some ⟨0, 3⟩ else if p ≤ 4 then some ⟨4, 7⟩ else none
def inpF19 : Bytes := [97, 10, 98, 32, 98, 10, 99, 10]
def cfgInv : Config := { multiLine := true, invertMatch := true }

/-- **Inversion is not the complement** (finding F19): the inverted scan resumes at the end of the *lines* of a
match, so the match `b\nc` that starts inside the last line of `a\nb` is never found and line 3 is reported
as not matching, although a match covers it (`rg -U 'a\nb|b\nc'` and `rg -U -v` of the same both print line 3). -/
theorem C13_full_fails : ¬ C13_full := by
  intro h
  have := h cfgInv mF19 inpF19 rfl
  revert this
  decide

/-- the answers of `^$` on `xa\nxa \n`: one empty match behind the last terminator -/
def mF20 : MatcherI := MatcherI.ofFindAt fun _ p => if p ≤ 7 then some ⟨7, 7⟩ else none
def inpF20 : Bytes := [120, 97, 10, 120, 97, 32, 10]
def cfgB2 : Config := { multiLine := true, beforeContext := 2 }

/-- The former finding F20/F27 (before-context delivered for the dropped empty match behind the last
terminator; repaired in /repo 563f90b, mirrored in the model): on the witness the model now equals the spec. -/
example : (multiLine cfgB2 mF20 allCont inpF20).events = mlSpec cfgB2 mF20 inpF20 := by decide

/-! ### Non-vacuity of `C13_nocontext`: `a\n` on `c\na\na\nc\n` — two touching matches, one block of two lines -/

def cfgPlain : Config := { multiLine := true, lineNumber := false }
def mAnl : MatcherI := MatcherI.ofFindAt fun _ p => if p ≤ 2 then some ⟨2, 4⟩ else if p ≤ 4 then some ⟨4, 6⟩ else none
def inp4 : Bytes := [99, 10, 97, 10, 97, 10, 99, 10]

example : PlainCfg cfgPlain := ⟨rfl, rfl, rfl, rfl, rfl, rfl⟩
example : codeBlocks cfgPlain mAnl inp4 = [⟨2, 6⟩] := by decide
example : (multiLine cfgPlain mAnl allCont inp4).events =
    [.begin, .matched none 2 [97, 10, 97, 10], .finish 8 none] := by decide
example : mlSpec cfgPlain mAnl inp4 = [.begin, .matched none 2 [97, 10, 97, 10], .finish 8 none] := by decide

end RgVerif.Props.C13
