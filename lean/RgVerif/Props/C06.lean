import RgVerif.Lemmas.WalkNodup
import RgVerif.Lemmas.WalkWitness
import RgVerif.Lemmas.WalkBridge
import RgVerif.Lemmas.WalkPathSpec
import RgVerif.Lemmas.WalkSim
import RgVerif.Lemmas.WalkDenied
import RgVerif.Props.C07
/-
C06 — the single-threaded and the parallel walker report the same entries, once each, and that set
is the reachable set; symlink loops are reported as errors and the traversal ends.

`cfg` ranges over every combination of max_depth, max_filesize, follow_links, same_file_system, an
arbitrary ignore-verdict function and an arbitrary entry filter; `forest` over every file system
(files, directories with devices and ignore files, links to files / directories / nowhere, cycles);
`roots` over every list of roots (directories, files, links).
-/
namespace RgVerif.Props.C06
open RgVerif RgVerif.Walk

/-- The parallel walker reports exactly the reachable entries (and loop / dangling-link errors),
for every configuration, file system, root list and fuel. -/
theorem parallel_eq_reach (cfg : Cfg) (forest : List Node) (fuel : Nat) (roots : List Node) :
    parallel cfg forest fuel roots = reach cfg forest fuel roots :=
  parallel_eq cfg forest fuel roots

/-- The serial walker reports exactly the reachable entries, for every configuration, file system,
root list and fuel.  (Before the repair of finding F25 this needed the guard `hazardFree`: no reachable
directory both on another device than its root under `same_file_system` and rejected by an entry test.) -/
theorem serial_eq_reach (cfg : Cfg) (forest : List Node) (fuel : Nat) (roots : List Node) :
    serial cfg forest fuel roots = reach cfg forest fuel roots :=
  serial_eq cfg forest fuel roots

/-- The enter/exit bookkeeping of the serial walker is balanced: after the contents of a directory
the ignore-matcher stack is what it was before. -/
theorem serial_ig_balanced (cfg : Cfg) (forest : List Node) (f : Nat) (sp : List Nat) (ig : List Anc)
    (depth : Nat) (p : Path) (rd : Option Nat) (kids : List Node)
    (hsp : cfg.followLinks = true → sp = ig.map (·.1)) (hrd : cfg.sameFs = false → rd = none) :
    (serContents cfg forest f sp ig depth p rd kids).2 = ig := by
  rw [serContents_ok cfg forest f sp ig depth p rd kids hsp hrd]

/-- The full statement of the property for the models. -/
def C06_full : Prop :=
  ∀ (cfg : Cfg) (forest : List Node) (fuel : Nat) (roots : List Node),
    (serial cfg forest fuel roots).Perm (parallel cfg forest fuel roots)

/-- It holds (since the repair of finding F25). -/
theorem C06 : C06_full := by
  intro cfg forest fuel roots
  rw [serial_eq, parallel_eq]

/-- The former witness of finding F25 as a regression check: root `1` on device 1 holds the directory
`2` on device 2, rejected by the filter, followed by the file `3`.  The serial walker used to call
`skip_current_dir` for `2`, which walkdir never pushed, popped the root's listing and never reported
`1/3`; now both walkers report it. -/
theorem f25_witness_repaired :
    serial f25Cfg f25Forest 3 f25Forest = [.entry [1], .entry [1, 3]] ∧
    parallel f25Cfg f25Forest 3 f25Forest = [.entry [1], .entry [1, 3]] := by
  decide

/-- Both walkers report the same entries (as lists, hence as sets), namely the
reachable ones, and — names being distinct within each directory and among the roots — each exactly
once. -/
theorem C06_partial (cfg : Cfg) (forest : List Node) (fuel : Nat) (roots : List Node)
    (hwf : WfL forest) (hwr : WfL roots) (hn : (roots.map Node.name).Nodup) :
    serial cfg forest fuel roots = reach cfg forest fuel roots ∧
    parallel cfg forest fuel roots = reach cfg forest fuel roots ∧
    (serial cfg forest fuel roots).Perm (parallel cfg forest fuel roots) ∧
    (serial cfg forest fuel roots).Nodup ∧ (parallel cfg forest fuel roots).Nodup := by
  have h1 := serial_eq cfg forest fuel roots
  have h2 := parallel_eq cfg forest fuel roots
  have h3 := reach_nodup cfg forest hwf fuel roots hn hwr
  refine ⟨h1, h2, ?_, ?_, ?_⟩
  · rw [h1, h2]
  · rw [h1]; exact h3
  · rw [h2]; exact h3

/-- Without any guard: the parallel walker reports each reachable entry exactly once. -/
theorem parallel_once (cfg : Cfg) (forest : List Node) (fuel : Nat) (roots : List Node)
    (hwf : WfL forest) (hwr : WfL roots) (hn : (roots.map Node.name).Nodup) :
    (parallel cfg forest fuel roots).Nodup := by
  rw [parallel_eq]; exact reach_nodup cfg forest hwf fuel roots hn hwr

/-- Symlink loops: (1) a followed link that points to a directory currently being walked is
reported as a loop error by both walkers and is not entered; (2) the traversal ends: the nesting of
followed links never exceeds the number of directories, so the recursion fuel `dirCount + 1` is never
exhausted — any larger fuel gives the same result (for the spec, the parallel walker and the serial walker). -/
theorem loop_reported_and_terminates (cfg : Cfg) (forest : List Node) :
    (∀ (jp : Contents) (js : SerContents) (rd : Option Nat) (sp : List Nat) (anc : List Anc)
       (depth : Nat) (pp : Path) (name len : Nat) (tgt : Target) (d : DirView) (via : Bool),
       cfg.followLinks = true → resolve forest tgt = .dir d via → inAnc anc d.ino = true →
       sp = anc.map (·.1) →
       parEntry cfg forest jp rd anc depth pp (.link name len tgt) = [.loop (pp ++ [name])] ∧
       (serEntry cfg forest js rd sp anc depth pp (.link name len tgt)).outs = [.loop (pp ++ [name])] ∧
       (serEntry cfg forest js rd sp anc depth pp (.link name len tgt)).abort = false) ∧
    (∀ (f : Nat) (roots : List Node), dirCount forest + 1 ≤ f →
       reach cfg forest f roots = reach cfg forest (dirCount forest + 1) roots ∧
       parallel cfg forest f roots = parallel cfg forest (dirCount forest + 1) roots ∧
       serial cfg forest f roots = serial cfg forest (dirCount forest + 1) roots) := by
  refine ⟨?_, ?_⟩
  · intro jp js rd sp anc depth pp name len tgt d via hf hr hl hsp
    have hfe : followEntry cfg forest (anc.map (·.1)) (pp ++ [name]) (.link name len tgt) =
        .error (.loop (pp ++ [name])) := by
      rw [followEntry_link_dir cfg forest anc _ name len tgt d via hf hr]
      simp [hl]
    refine ⟨?_, ?_, ?_⟩
    · unfold parEntry
      rw [generateWork_err cfg forest anc (depth + 1) rd pp (.link name len tgt) _ hfe]
    · unfold serEntry
      rw [wdHandle_err cfg forest sp rd _ (.link name len tgt) (.loop (pp ++ [name]))
        (by rw [hsp]; exact hfe)]
    · unfold serEntry
      rw [wdHandle_err cfg forest sp rd _ (.link name len tgt) (.loop (pp ++ [name]))
        (by rw [hsp]; exact hfe)]
  · intro f roots hf
    have hr := reach_stable cfg forest f roots hf
    refine ⟨hr, ?_, ?_⟩
    · rw [parallel_eq, parallel_eq, hr]
    · rw [serial_eq, serial_eq, hr]

/-- The serial walker as the code is built — walkdir's `IntoIter` (stack of directory listings,
`stack_path`, `handle_entry`, `push`/`pop`, the `max_depth` pop loop, `skip_current_dir`),
`WalkEventIter` (one-item look-ahead, `depth` counter, Dir / File / Exit events) and the loop of
`Walk::next` (the `ig` stack, `skip_entry`), modelled as state machines in `Model/WalkEvents.lean` —
reports, for every sufficiently large step budget, exactly the list of the recursive model `serial`
(about which the other theorems speak); hence exactly the reachable entries. -/
theorem serial_events_eq (cfg : Cfg) (forest : List Node) (roots : List Node) :
    (∃ N, ∀ fuel, N ≤ fuel →
      serialEvents cfg forest fuel roots = some (serial cfg forest (dirCount forest + 1) roots)) ∧
    (∃ N, ∀ fuel, N ≤ fuel →
        serialEvents cfg forest fuel roots = some (reach cfg forest (dirCount forest + 1) roots)) := by
  have h := serialEvents_eq cfg forest (dirCount forest + 1) (Nat.le_refl _) roots
  refine ⟨h, ?_⟩
  rw [← serial_eq cfg forest _ roots]
  exact h

/-- Outside the property (error visits are not entries), for completeness: the rule for the EACCES
visits of directories that cannot be listed (`Spec/ReachDenied.lean`, compared with both real walkers on
every generated tree with unreadable directories).  The parallel walker calls `read_dir` before it
looks at `max_depth`, the serial one only delivers the error when the pushed listing is read; so the
serial walker's error visits are a sub-sequence of the parallel walker's (they differ exactly for
unreadable directories at the depth limit). -/
theorem denied_visits_serial_sub_parallel (cfg : Cfg) (forest : List Node) (denied : Nat → Bool)
    (fuel : Nat) (roots : List Node) :
    (deniedVisits cfg forest denied false fuel roots).Sublist
      (deniedVisits cfg forest denied true fuel roots) :=
  deniedVisits_sub cfg forest denied fuel roots

/-- The specification read path by path (`Spec/ReachPath.lean`: an item is reported iff it is a root,
or what `entryOut` says about a child of a *listed* directory; a directory is listed iff it is a root
directory within the depth limit or a reported child directory — possibly through a followed,
non-looping link — of a listed directory, on the root's device and within the depth limit) is exactly
the recursive specification `reach`. -/
theorem reach_iff_reported (cfg : Cfg) (forest : List Node) (fuel : Nat) (roots : List Node)
    (hf : dirCount forest + 1 ≤ fuel) (o : Out) :
    o ∈ reach cfg forest fuel roots ↔ Reported cfg forest roots o :=
  RgVerif.Walk.reach_iff_reported cfg forest fuel roots hf o

/-- C06 and C07 composed — the real object, threads included: start `n ≥ 1` workers of the C07
transition system on the works that `WalkParallel::visit` creates for `roots` (`workForest`: one
node per `Work` that `generate_work` sends, as computed by the C06 model).  Under EVERY interleaving
(`ParWalk.Reachable`), any steal batch sizes and spurious steal failures:
(1) once every worker has exited and no visitor asked to quit, the visitor calls are exactly the
    reachable entries of the specification `reach`, each as often as it occurs there;
(2) at any time, also after a quit, no entry has been handed out more often than it occurs in `reach`;
(3) on a well-formed file system (distinct names in each directory and among the roots): never twice. -/
theorem parallel_any_schedule (cfg : Cfg) (forest : List Node) (fuel : Nat) (roots : List Node)
    (n : Nat) (hn : 0 < n) (s : ParWalk.State)
    (h : ParWalk.Reachable n (workForest cfg forest fuel roots) s) :
    (ParWalk.AllExited n s → s.quitAsked = false →
      s.visited.Perm (entriesOf (reach cfg forest fuel roots))) ∧
    (∀ p, s.visited.count p ≤ (entriesOf (reach cfg forest fuel roots)).count p) ∧
    (WfL forest → WfL roots → (roots.map Node.name).Nodup → s.visited.Nodup) := by
  have he := workForest_entries cfg forest fuel roots
  refine ⟨?_, ?_, ?_⟩
  · intro hex hq
    rw [← he]
    exact RgVerif.Props.C07.C07_safe hn h hex hq
  · intro p
    rw [← he]
    exact (RgVerif.Props.C07.C07_quit hn h).1 p
  · intro hwf hwr hnr
    apply (RgVerif.Props.C07.C07_quit hn h).2
    rw [he]
    exact reach_entries_nodup cfg forest hwf fuel roots hnr hwr

/-! Non-vacuity of the hypotheses of `C06_partial` (and of the former guard): a root on device 1 with an ignore
file, a sub-directory on device 2 that is *not* rejected (reported but not entered), a link cycle,
a rejected file and a size limit — `same_file_system`, `follow_links`, `max_filesize`, a filter and an
ignore rule all active; six outputs. -/
example : hazardFree demoCfg demoForest 4 demoForest = true ∧
    reach demoCfg demoForest 4 demoForest =
      [.entry [1], .entry [1, 3], .loop [1, 5], .entry [1, 8], .entry [1, 8, 9], .broken [1, 8, 10]] := by
  decide

end RgVerif.Props.C06
