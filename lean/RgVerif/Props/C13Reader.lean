import RgVerif.Props.C13
import RgVerif.Model.ReadByLine
/-
C13 through the strategy selection of `Searcher::search_slice` and `Searcher::search_reader`: when the
multi-line strategy is really chosen (`multi_line` requested and the matcher may match a line terminator,
`multi_line_with_matcher`), a slice is handed to `MultiLine::run` as it is, and a reader is first read to
its end (`fill_multi_line_buffer_from_reader`: interrupted reads retried, whatever the fragmentation) and
then searched as that one slice -- so both deliver the multi-line model of the WHOLE input.
-/
namespace RgVerif.Props.C13
open RgVerif RgVerif.Matcher RgVerif.Lines RgVerif.Searcher RgVerif.GrepSpec RgVerif.MLSpec RgVerif.LineBuffer

/-- **C13 for `search_slice`** (strategy selection included). -/
theorem C13_search_slice (cfg : Searcher.Config) (m : MatcherI) (inp : Bytes)
    (hml : multiLineWithMatcher cfg m = true) (hinv : cfg.invertMatch = false)
    (hbin : cfg.binary = .none) (hpt : cfg.passthru = true → cfg.afterContext = 0) (hs : SpanSane m inp) :
    (searchSlice cfg m allCont inp).events = mlSpec cfg m inp ∧ (searchSlice cfg m allCont inp).result = .ok () := by
  unfold searchSlice
  simp only [hml, if_true]
  exact C13_context cfg m inp hinv hbin hpt hs

/-- **C13 for `search_reader`**: for EVERY read script (fragmentation, `Interrupted` reads) and capacity,
without a heap limit the reader strategy delivers the multi-line model of the whole input: the lines
covered by the successive matches over ALL the bytes the reader yields, never a per-fragment search. -/
theorem C13_search_reader (cfg : Searcher.Config) (m : MatcherI) (inp : Bytes) (script : List Step) (cap : Option Nat)
    (hml : multiLineWithMatcher cfg m = true) (hinv : cfg.invertMatch = false)
    (hbin : cfg.binary = .none) (hpt : cfg.passthru = true → cfg.afterContext = 0) (hs : SpanSane m inp) :
    (searchReader cfg m allCont none cap ⟨inp, script, 0⟩).events = mlSpec cfg m inp ∧
      (searchReader cfg m allCont none cap ⟨inp, script, 0⟩).result = .ok () := by
  unfold searchReader
  simp only [hml, if_true, multiLineHeapFails, Bool.false_eq_true, if_false]
  exact C13_context cfg m inp hinv hbin hpt hs

/-- the same for an inverted search (the lines outside the matches the inverted scan finds; finding F19) -/
theorem C13_search_reader_inverted (cfg : Searcher.Config) (m : MatcherI) (inp : Bytes) (script : List Step)
    (cap : Option Nat) (hml : multiLineWithMatcher cfg m = true) (hinv : cfg.invertMatch = true)
    (hbin : cfg.binary = .none) (hpt : cfg.passthru = true → cfg.afterContext = 0) (hs : SpanSane m inp) :
    (searchReader cfg m allCont none cap ⟨inp, script, 0⟩).events = mlSpecInv cfg m inp ∧
      (searchReader cfg m allCont none cap ⟨inp, script, 0⟩).result = .ok () := by
  unfold searchReader
  simp only [hml, if_true, multiLineHeapFails, Bool.false_eq_true, if_false]
  exact C13_inverted cfg m inp hinv hbin hpt hs

/-- under a heap limit the reader either fails before any callback (input does not fit) or behaves as above -/
theorem C13_search_reader_heap (cfg : Searcher.Config) (m : MatcherI) (σ : Script) (inp : Bytes) (script : List Step)
    (cap : Option Nat) (limit : Nat) (hml : multiLineWithMatcher cfg m = true) :
    ((searchReader cfg m σ (some limit) cap ⟨inp, script, 0⟩).events = [] ∧
      (searchReader cfg m σ (some limit) cap ⟨inp, script, 0⟩).result = .err) ∨
    searchReader cfg m σ (some limit) cap ⟨inp, script, 0⟩ = multiLine cfg m σ inp := by
  unfold searchReader
  simp only [hml, if_true]
  split
  · left; exact ⟨rfl, rfl⟩
  · right; rfl

/-! Non-vacuity: the configuration with context and the matcher of `Props/C13` (`cfgCtx`, `mBC`, six lines) select
the multi-line strategy, and the reader's log for a 1-byte / interrupted read script is the multi-line model. -/
example : multiLineWithMatcher cfgCtx mBC = true ∧ cfgCtx.invertMatch = false ∧ cfgCtx.binary = .none := by decide
example : (searchReader cfgCtx mBC allCont none (some 3) ⟨inp6, [.ret 1, .intr, .ret 2], 0⟩).events = mlSpec cfgCtx mBC inp6 := by
  decide

end RgVerif.Props.C13
