import RgVerif.Lemmas.GlobStrat2
import RgVerif.Lemmas.GlobSetIdx
import RgVerif.Spec.GlobDoc
import RgVerif.Lemmas.GlobDocSimple
import RgVerif.Lemmas.GlobDocStar
import RgVerif.Lemmas.GlobDocClass
import RgVerif.Lemmas.GlobDocAlt
import RgVerif.Lemmas.GlobDocStarP
/-
C12 — a glob set answers exactly like its member globs; a glob matches exactly when the documented
syntax says so.  Only the deciding statements live here; proofs are in `Lemmas/Glob*.lean`.

M: `Model/Glob.lean` (`parse`, `tokMatch` = meaning of the regex printed by `to_regex_with`, the six
recognisers, `strategyOf` = `MatchStrategy::new`), `Model/GlobSet.lean` (`candidate`, `GlobSet.new`,
the seven `matches_into`, sort + dedup, `setMatches`).

The unchanged tree violates the full statement on exactly one class of paths — those whose last
component is `.` or `..` (`file_name` returns `None`, so the basename / extension strategies see empty
strings while the regex still matches): `C12_set_full_fails`.  Outside that class the statement is proved
for all glob sets, all options and all byte paths.
-/
namespace RgVerif.Props.C12
open RgVerif RgVerif.Glob

/-- "glob number `i` of the set matches `p` on its own" (`Glob::compile_matcher().is_match`) -/
def matchAt (gs : List Glob) (p : Bytes) (i : Nat) : Bool :=
  match gs[i]? with
  | some g => tokMatch g.opts g.tokens p
  | none => false

/-! ### the six recognisers: when one fires, its strategy's lookup is the regex's answer -/

theorem literal_eq_regex (g : Glob) (l : List Nat) (h : literal g = some l) (p : Bytes) :
    stratAnswer g (.literal l) (candidate p) = tokMatch g.opts g.tokens p :=
  literal_correct h p

theorem basename_literal_eq_regex (g : Glob) (l : List Nat) (h : basenameLiteral g = some l)
    (p : Bytes) (hd : lastCompDots p = false) :
    stratAnswer g (.basenameLiteral l) (candidate p) = tokMatch g.opts g.tokens p :=
  basenameLiteral_correct h p hd

theorem ext_eq_regex (g : Glob) (e : List Nat) (h : ext g = some e)
    (p : Bytes) (hd : lastCompDots p = false) :
    stratAnswer g (.extension e) (candidate p) = tokMatch g.opts g.tokens p :=
  ext_correct h p hd

/-- (`prefix` is consulted only after `literal` declined; on an all-literal glob it would be wrong) -/
theorem prefix_eq_regex (g : Glob) (l : List Nat) (h : pfx g = some l) (hlit : literal g = none)
    (p : Bytes) : stratAnswer g (.pfx l) (candidate p) = tokMatch g.opts g.tokens p :=
  pfx_correct h hlit p

theorem suffix_eq_regex (g : Glob) (l : List Nat) (c : Bool) (h : sfx g = some (l, c))
    (hlit : literal g = none) (p : Bytes) :
    stratAnswer g (.sfx l c) (candidate p) = tokMatch g.opts g.tokens p :=
  sfx_correct h hlit p

theorem required_ext_eq_regex (g : Glob) (e : List Nat) (h : requiredExt g = some e)
    (p : Bytes) (hd : lastCompDots p = false) :
    stratAnswer g (.requiredExt e) (candidate p) = tokMatch g.opts g.tokens p :=
  requiredExt_correct h p hd

/-- `MatchStrategy::new` as a whole: for every glob (any token list, any options) and every path outside
the dots class, the chosen strategy answers like the regex. -/
theorem strategy_eq_regex (g : Glob) (p : Bytes) (hd : lastCompDots p = false) :
    stratAnswer g (strategyOf g) (candidate p) = tokMatch g.opts g.tokens p :=
  strategyOf_correct g p hd

def strategy_eq_regex_full : Prop :=
  ∀ (g : Glob) (p : Bytes), stratAnswer g (strategyOf g) (candidate p) = tokMatch g.opts g.tokens p

/-- witness: the glob `**/.` on the path `.` (regex `^(?:/?|.*/)\.$` matches, basename is empty) -/
theorem strategy_eq_regex_full_fails : ¬ strategy_eq_regex_full := by
  intro h
  have := h ⟨⟨false, false, true, false⟩, [.s .recPrefix, .s (.lit 46)]⟩ [46]
  revert this
  decide

/-! ### the set -/

/-- `GlobSet::matches` returns exactly the indices of the globs that match individually, in increasing
order without repetition — for all sets of globs (any mixture of strategies and options) and all byte
paths outside the dots class. -/
theorem C12_set (gs : List Glob) (p : Bytes) (hd : lastCompDots p = false) :
    setMatches gs p = (List.range gs.length).filter (matchAt gs p) := by
  unfold setMatches GlobSet.new GlobSet.matchesCandidate
  cases gs with
  | nil => simp [GlobSet.emptySet]
  | cons g0 gs' =>
    simp only [List.isEmpty_cons, Bool.false_eq_true, ↓reduceIte, List.length_cons,
      Nat.add_eq_zero_iff, Nat.succ_ne_self, and_false, beq_iff_eq]
    apply dedup_sort_eq_filter
    intro j
    show j ∈ (GlobSet.emptySet.addAll 0 (g0 :: gs')).pushes (candidate p) ↔ _
    rw [mem_pushes_addAll, pushes_emptySet]
    simp only [List.not_mem_nil, false_or, mem_enumFrom, Nat.zero_le, Nat.sub_zero, true_and]
    constructor
    · rintro ⟨g, hg, hs⟩
      have hlt : j < (g0 :: gs').length := by
        have := (List.getElem?_eq_some_iff.mp hg).1
        exact this
      refine ⟨by simpa using hlt, ?_⟩
      rw [strategyOf_correct g p hd] at hs
      simp only [matchAt, hg]
      exact hs
    · rintro ⟨hlt, hm⟩
      have hlt' : j < (g0 :: gs').length := by simpa using hlt
      refine ⟨(g0 :: gs')[j], List.getElem?_eq_getElem hlt', ?_⟩
      rw [strategyOf_correct _ p hd]
      simp only [matchAt, List.getElem?_eq_getElem hlt'] at hm
      exact hm

/-- the answer is strictly increasing (sorted, duplicate-free) for every set and every path, also
inside the dots class -/
theorem C12_set_sorted (gs : List Glob) (p : Bytes) : (setMatches gs p).Pairwise (· < ·) := by
  unfold setMatches GlobSet.matchesCandidate
  split
  · simp
  · exact strict_dedupAdj _ (sorted_sortNat _)

/-- the pushes of any arrangement of the seven strategies have the same members -/
theorem mem_pushesIn (s : GlobSet) (order : List StratKind) (h : order.Perm allStrats) (c : Candidate) (j : Nat) :
    j ∈ s.pushesIn order c ↔ j ∈ s.pushes c := by
  unfold GlobSet.pushesIn
  rw [List.mem_flatMap]
  have hmem : ∀ k, k ∈ order ↔ k ∈ allStrats := fun k => h.mem_iff
  constructor
  · rintro ⟨k, _, hj⟩
    cases k <;> simp only [GlobSet.hitsOf] at hj <;> simp [GlobSet.pushes, hj]
  · intro hj
    simp only [GlobSet.pushes, List.mem_append] at hj
    rcases hj with (((((hj | hj) | hj) | hj) | hj) | hj) | hj
    · exact ⟨.extension, (hmem _).mpr (by decide), hj⟩
    · exact ⟨.basenameLiteral, (hmem _).mpr (by decide), hj⟩
    · exact ⟨.literal, (hmem _).mpr (by decide), hj⟩
    · exact ⟨.suffix, (hmem _).mpr (by decide), hj⟩
    · exact ⟨.pfx, (hmem _).mpr (by decide), hj⟩
    · exact ⟨.requiredExtension, (hmem _).mpr (by decide), hj⟩
    · exact ⟨.regex, (hmem _).mpr (by decide), hj⟩

/-- **The order of the strategies in `GlobSet.strats` is not observable**: for ANY arrangement of the seven
strategies the set returns the increasing list of the indices of the globs that match individually (all sets,
all paths outside the dots class). -/
theorem C12_set_any_order (order : List StratKind) (h : order.Perm allStrats) (gs : List Glob) (p : Bytes)
    (hd : lastCompDots p = false) :
    (GlobSet.new gs).matchesCandidateIn order (candidate p) = (List.range gs.length).filter (matchAt gs p) := by
  rw [← C12_set gs p hd]
  unfold setMatches GlobSet.matchesCandidateIn GlobSet.matchesCandidate
  split
  · rfl
  · apply strict_ext (strict_dedupAdj _ (sorted_sortNat _)) (strict_dedupAdj _ (sorted_sortNat _))
    intro y
    rw [mem_dedupAdj, mem_sortNat, mem_dedupAdj, mem_sortNat, mem_pushesIn _ order h]

/-- `is_match` likewise: for any arrangement, it is true exactly when some glob of the set matches -/
theorem C12_is_match_any_order (order : List StratKind) (h : order.Perm allStrats) (gs : List Glob) (p : Bytes)
    (hd : lastCompDots p = false) :
    (GlobSet.new gs).isMatchIn order (candidate p) = (List.range gs.length).any (matchAt gs p) := by
  have hset := C12_set_any_order order h gs p hd
  unfold GlobSet.matchesCandidateIn at hset
  unfold GlobSet.isMatchIn
  split
  · rename_i h0
    rw [if_pos h0] at hset
    cases hany : (List.range gs.length).any (matchAt gs p) with
    | false => rfl
    | true =>
      obtain ⟨y, hy, hm⟩ := List.any_eq_true.mp hany
      have : y ∈ (List.range gs.length).filter (matchAt gs p) := List.mem_filter.mpr ⟨hy, hm⟩
      rw [← hset] at this
      simp at this
  · rename_i h0
    rw [if_neg h0] at hset
    apply Bool.eq_iff_iff.mpr
    constructor
    · intro ha
      obtain ⟨k, hk, hne⟩ := List.any_eq_true.mp ha
      obtain ⟨y, hy⟩ : ∃ y, y ∈ (GlobSet.new gs).hitsOf (candidate p) k := by
        cases hl : (GlobSet.new gs).hitsOf (candidate p) k with
        | nil => simp [hl] at hne
        | cons y _ => exact ⟨y, by simp⟩
      have hin : y ∈ (GlobSet.new gs).pushesIn order (candidate p) := List.mem_flatMap.mpr ⟨k, hk, hy⟩
      have : y ∈ dedupAdj (sortNat ((GlobSet.new gs).pushesIn order (candidate p))) := by
        rw [mem_dedupAdj, mem_sortNat]; exact hin
      rw [hset, List.mem_filter] at this
      exact List.any_eq_true.mpr ⟨y, this.1, this.2⟩
    · intro ha
      obtain ⟨y, hy, hm⟩ := List.any_eq_true.mp ha
      have : y ∈ (List.range gs.length).filter (matchAt gs p) := List.mem_filter.mpr ⟨hy, hm⟩
      rw [← hset, mem_dedupAdj, mem_sortNat] at this
      obtain ⟨k, hk, hyk⟩ := List.mem_flatMap.mp this
      refine List.any_eq_true.mpr ⟨k, hk, ?_⟩
      cases hl : (GlobSet.new gs).hitsOf (candidate p) k with
      | nil => simp [hl] at hyk
      | cons _ _ => rfl

def C12_set_full : Prop :=
  ∀ (gs : List Glob) (p : Bytes), setMatches gs p = (List.range gs.length).filter (matchAt gs p)

/-- witness: the one-element set `{ **/. }` on the path `.`: the glob matches, the set reports nothing -/
theorem C12_set_full_fails : ¬ C12_set_full := by
  intro h
  have := h [⟨⟨false, false, true, false⟩, [.s .recPrefix, .s (.lit 46)]⟩] [46]
  revert this
  decide

/-- the guard is satisfiable by non-trivial cases: `{ **/a. , *.a , a/** }` on `b/a.` (a name ending in `.`)
answers `[0]`, on `a/x.a` answers `[1, 2]` -/
example :
    lastCompDots [98, 47, 97, 46] = false ∧
    setMatches [⟨⟨false, true, true, false⟩, [.s .recPrefix, .s (.lit 97), .s (.lit 46)]⟩,
                ⟨⟨false, false, true, false⟩, [.s .star, .s (.lit 46), .s (.lit 97)]⟩,
                ⟨⟨false, false, true, false⟩, [.s (.lit 97), .s .recSuffix]⟩] [98, 47, 97, 46] = [0] ∧
    lastCompDots [97, 47, 120, 46, 97] = false ∧
    setMatches [⟨⟨false, true, true, false⟩, [.s .recPrefix, .s (.lit 97), .s (.lit 46)]⟩,
                ⟨⟨false, false, true, false⟩, [.s .star, .s (.lit 46), .s (.lit 97)]⟩,
                ⟨⟨false, false, true, false⟩, [.s (.lit 97), .s .recSuffix]⟩] [97, 47, 120, 46, 97] = [1, 2] := by
  decide

/-! ### the documented syntax -/

/-- **Token level, all token kinds except alternates**: for every list of `Literal` (ASCII), `Any`,
`ZeroOrMore`, `RecursivePrefix`, `RecursiveZeroOrMore`, `RecursiveSuffix` and `Class` (ASCII ranges, negated or
not) tokens, in any order, under all option flags, the regex that `to_regex_with` prints means what the
documentation says of the corresponding pieces: classes contain exactly their listed characters and ranges,
`[!…]` the others, with ASCII case folding inside classes under `case_insensitive`. -/
theorem tokens_mean_documented (o : Opts) (ts : List Tok) (hts : ∀ t ∈ ts, starTok t = true) (p : Bytes) :
    tokensK o (ts.map Token.s) (fun r => r.isEmpty) p =
      GlobDoc.atomsMatch (docOpts o) (ts.flatMap trAtoms) p :=
  tokensK_eq_atomsMatch_star o ts hts p

/-- **`into` is cleared before matching begins**: whatever the reused buffer held, `matches_candidate_into`
leaves exactly the answer of a fresh `matches_candidate` — also for a set without globs. -/
theorem C12_into_clears (s : GlobSet) (c : Candidate) (into : List Nat) :
    s.matchesCandidateInto c into = s.matchesCandidate c := by
  unfold GlobSet.matchesCandidateInto GlobSet.matchesCandidate clearBuf
  simp

/-- **API history**: along any sequence of `matches_into` calls sharing one buffer (any sets, empty ones
included, any paths, any initial buffer content) every call returns what `matches` returns for that set and
path alone — no state leaks from one call to the next. -/
theorem C12_into_history (steps : List (List Glob × Bytes)) (buf : List Nat) :
    intoHistory steps buf = steps.map fun sp => setMatches sp.1 sp.2 := by
  induction steps generalizing buf with
  | nil => rfl
  | cons sp rest ih =>
    obtain ⟨gs, p⟩ := sp
    simp only [intoHistory, List.map_cons, C12_into_clears, ih]
    rfl

/-- the part of the documented grammar for which `C12_doc_partial` is proved: literals, `?`, single `*`, `\x`
escapes (or a literal backslash), and `**` as a whole component in its three positions — i.e. globs
[`**/`] S₀ (`/**/` Sᵢ)* [`/**`] with wildcard segments Sᵢ, and the glob `**` —, or globs made of wildcard runs and
bracket classes (`[ab]`, `[a-c]`, `[!…]`, `[^…]`, `]` first, `-` first or last), or globs with one level of
alternates `{a,b}` whose branches and surroundings are wildcard runs, or `**` globs whose segments contain
bracket classes (`**/*.[ch]`, `src/**/[a-z]*.rs`) -/
def docGuard (o : Opts) (g : List Nat) : Bool :=
  simpleGlob o.be g || okStarGlob o.be g || okClassGlob o.be g || okAltGlob o g || okStarGlobP o.be g

/-- **C12_doc** (partial, guard `docGuard`; all four option flags): the glob is accepted, lies in the documented
grammar, and its regex matches a path exactly when the documented syntax says so — `?` is one byte and `*` any
run of bytes, neither crossing `/` under `literal_separator`; `**/` at the start matches nothing or anything
ending in `/`, `/**/` matches `/` or `/…/`, a final `/**` matches `/` and everything after it, `**` alone
everything; a class matches exactly its listed characters and ranges (the others when negated; never changed
by `literal_separator`); `{a,b}` matches `a` or `b`, an empty branch counting only under `empty_alternates`;
ASCII case folding under `case_insensitive`, also inside classes; `\x` is `x` under `backslash_escape` and a literal
backslash otherwise.  For all globs of that grammar and all byte paths. -/
theorem C12_doc_partial (o : Opts) (g : List Nat) (hg : docGuard o g = true) (p : Bytes) :
    ∃ toks, parse o g = .ok toks ∧ GlobDoc.okGlob (docOpts o) g = true ∧
      tokMatch o toks p = GlobDoc.docMatch (docOpts o) g p := by
  unfold docGuard at hg
  rcases Bool.or_eq_true_iff.mp hg with h | h
  · rcases Bool.or_eq_true_iff.mp h with h | h
    · rcases Bool.or_eq_true_iff.mp h with h | h
      · rcases Bool.or_eq_true_iff.mp h with h | h
        · exact doc_simple o g h p
        · exact doc_okStarGlob o g h p
      · exact doc_okClassGlob o g h p
    · exact doc_okAltGlob o g h p
  · exact doc_okStarGlobP o g h p

/-- the guard holds for non-trivial globs: `a*.?\*b`; without escapes `\a/?*`; `**/a*/**/b?/**`; `**`; `/**` -/
example : docGuard ⟨false, false, true, false⟩ [97, 42, 46, 63, 92, 42, 98] = true ∧
    docGuard ⟨false, false, false, false⟩ [92, 97, 47, 63, 42] = true ∧
    docGuard ⟨true, true, true, false⟩ [42, 42, 47, 97, 42, 47, 42, 42, 47, 98, 63, 47, 42, 42] = true ∧
    docGuard ⟨false, false, true, false⟩ [42, 42] = true ∧ docGuard ⟨false, false, true, false⟩ [47, 42, 42] = true ∧
    -- and fails where the documentation gives no meaning: `a**b`, `**/`
    docGuard ⟨false, false, true, false⟩ [97, 42, 42, 98] = false ∧
    docGuard ⟨false, false, true, false⟩ [42, 42, 47] = false ∧
    -- classes: `a[!b-d]*.[ch]`
    docGuard ⟨false, true, true, false⟩ [97, 91, 33, 98, 45, 100, 93, 42, 46, 91, 99, 104, 93] = true ∧
    -- alternates: `*.{c,h}`
    docGuard ⟨false, false, true, false⟩ [42, 46, 123, 99, 44, 104, 125] = true ∧
    -- `**` with classes: `**/*.[ch]`
    docGuard ⟨false, true, true, false⟩ [42, 42, 47, 42, 46, 91, 99, 104, 93] = true := by
  decide

end RgVerif.Props.C12
