import RgVerif.Driver.C19
/-
`rgmodel`: one request per line on stdin, one reply per line on stdout (flushed per line).
Request: `<cmd> <arg>…` where `<cmd>` is `cNN.<op>` and args are atoms or S-expressions.
-/
open RgVerif

def dispatch (line : String) : String :=
  match Sx.parseLine line with
  | some (Sx.atom cmd :: args) =>
    let pfx := String.ofList (cmd.toList.takeWhile (· != '.'))
    match pfx with
    | "c19" => Driver.C19.handle cmd args
    | "ping" => "pong"
    | _ => "bad-op"
  | _ => "bad-op"

partial def loop (hin hout : IO.FS.Stream) : IO Unit := do
  let line ← hin.getLine
  if line.isEmpty then return ()
  hout.putStrLn (dispatch line)
  hout.flush
  loop hin hout

def main : IO Unit := do loop (← IO.getStdin) (← IO.getStdout)
