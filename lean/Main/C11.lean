import RgVerif.Driver.Loop
import RgVerif.Driver.C11
def main : IO Unit := RgVerif.Driver.runLoop RgVerif.Driver.C11.handle
