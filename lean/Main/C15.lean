import RgVerif.Driver.Loop
import RgVerif.Driver.C15
def main : IO Unit := RgVerif.Driver.runLoop RgVerif.Driver.C15.handle
