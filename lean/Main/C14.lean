import RgVerif.Driver.Loop
import RgVerif.Driver.C14
def main : IO Unit := RgVerif.Driver.runLoop RgVerif.Driver.C14.handle
