import RgVerif.Driver.Loop
import RgVerif.Driver.C06
def main : IO Unit := RgVerif.Driver.runLoop RgVerif.Driver.C06.handle
