import RgVerif.Driver.Loop
import RgVerif.Driver.C01
def main : IO Unit := RgVerif.Driver.runLoop RgVerif.Driver.C01.handle
