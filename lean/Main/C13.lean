import RgVerif.Driver.Loop
import RgVerif.Driver.C13
def main : IO Unit := RgVerif.Driver.runLoop RgVerif.Driver.C13.handle
