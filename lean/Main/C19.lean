import RgVerif.Driver.Loop
import RgVerif.Driver.C19
def main : IO Unit := RgVerif.Driver.runLoop RgVerif.Driver.C19.handle
