import RgVerif.Driver.Loop
import RgVerif.Driver.C08
def main : IO Unit := RgVerif.Driver.runLoop RgVerif.Driver.C08.handle
