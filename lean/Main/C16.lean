import RgVerif.Driver.Loop
import RgVerif.Driver.C16
def main : IO Unit := RgVerif.Driver.runLoop RgVerif.Driver.C16.handle
