import RgVerif.Driver.Loop
import RgVerif.Driver.C04
def main : IO Unit := RgVerif.Driver.runLoop RgVerif.Driver.C04.handle
