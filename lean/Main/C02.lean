import RgVerif.Driver.Loop
import RgVerif.Driver.C02
def main : IO Unit := RgVerif.Driver.runLoop RgVerif.Driver.C02.handle
