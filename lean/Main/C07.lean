import RgVerif.Driver.Loop
import RgVerif.Driver.C07
def main : IO Unit := RgVerif.Driver.runLoop RgVerif.Driver.C07.handle
