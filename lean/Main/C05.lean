import RgVerif.Driver.Loop
import RgVerif.Driver.C05
def main : IO Unit := RgVerif.Driver.runLoop RgVerif.Driver.C05.handle
