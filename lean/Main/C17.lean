import RgVerif.Driver.Loop
import RgVerif.Driver.C17
def main : IO Unit := RgVerif.Driver.runLoop RgVerif.Driver.C17.handle
