import RgVerif.Driver.Loop
import RgVerif.Driver.C03
def main : IO Unit := RgVerif.Driver.runLoop RgVerif.Driver.C03.handle
