import RgVerif.Driver.Loop
import RgVerif.Driver.C12
def main : IO Unit := RgVerif.Driver.runLoop RgVerif.Driver.C12.handle
