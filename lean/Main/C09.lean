import RgVerif.Driver.Loop
import RgVerif.Driver.C09
def main : IO Unit := RgVerif.Driver.runLoop RgVerif.Driver.C09.handle
