import RgVerif.Driver.Loop
import RgVerif.Driver.C18
def main : IO Unit := RgVerif.Driver.runLoop RgVerif.Driver.C18.handle
