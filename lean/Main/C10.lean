import RgVerif.Driver.Loop
import RgVerif.Driver.C10
def main : IO Unit := RgVerif.Driver.runLoop RgVerif.Driver.C10.handle
