import json,re,glob,os,time
V='/verif'
conf={}; run={}
for f in ['/tmp/s5-C17.log','/tmp/s5-C11.log','/tmp/s5-b.log','/tmp/s5-c.log','/tmp/s5-d.log','/tmp/s5-e.log','/tmp/s5-w2run.log','/tmp/s5-w2confirm.log','/tmp/s5-c15run.log','/tmp/s5-c15confirm.log','/tmp/s5-c12run.log','/tmp/s5-c18run.log','/tmp/s5-c03run.log','/tmp/s5-w3confirm.log']:
    if not os.path.exists(f): continue
    for l in open(f):
        l=l.strip()
        m=re.match(r'seeded/(\S+) :: (.*?) :: (.*)$',l)
        if m:
            sid,c,r=m.groups()
            if 'failed=0' in c or sid not in conf: conf[sid]=c
            run.setdefault(sid,[]).append(r)
            continue
        m=re.match(r'(C\d+-\d+-\d+): (suite .*)$',l)
        if m:
            if 'failed=0' in m.group(2) or m.group(1) not in conf: conf[m.group(1)]=m.group(1)+': '+m.group(2)
            continue
        m=re.match(r'(C\d+-\d+-\d+) \((C\d+)\): (.*)$',l)
        if m: run.setdefault(m.group(1),[]).append(l)
head=os.popen('git -C /repo rev-parse --short HEAD').read().strip()
for sid in sorted(set(conf)|set(run)):
    p=f'{V}/seeded/{sid}/meta.json'
    if not os.path.exists(p): continue
    m=json.load(open(p))
    m['source']='fresh sub-agent, fifth round (given only the property text and a scratch worktree; asked for changes that need something specific to manifest)'
    c=conf.get(sid,'')
    sm=re.search(r'suite (passed=\d+ failed=\d+)',c); dm=re.search(r'(?:run-)?demo: (clean rc=\d+ mutant rc=\d+)',c)
    m['confirmed']={'suite':(f'cargo test --workspace --offline with the change applied: {sm.group(1)}' if sm else 'not re-run here'),
                    'demo':(f'{dm.group(1)} (0 = property holds, 1 = violated; private worktree)' if dm else '')}
    rs=run.get(sid,[])
    first=rs[0] if rs else ''
    last=rs[-1] if rs else ''
    def kind(r):
        k=re.search(r'replay=\S*/(C\d+-[a-z_]+)',r); return k.group(1) if k else ''
    if 'CAUGHT' in first:
        m['caught_by']='CAUGHT first run: '+kind(first)+(' (source-anchored constant / no-failing-input-found)' if 'no-failing-input-found' in first else '')
    elif 'MISSED' in first and 'CAUGHT' in last:
        m['caught_by']='MISSED on the first run; caught after the generator was strengthened: '+kind(last)
    elif first:
        m['caught_by']='MISSED'
    m['what_i_ran']=f'bin/seeded-confirm (or run-demo.sh on a private worktree) and bin/seeded-run seeded/{sid} (VERIF_REPO private worktree, quick tier)'
    if rs:
        m['last_run']={'status':'CAUGHT' if 'CAUGHT' in last else 'MISSED','repo_head':head,'date':time.strftime('%Y-%m-%d %H:%M')}
    json.dump(m,open(p,'w'),indent=1)
    print(sid, '|', m['confirmed']['suite'][-22:], '|', m['confirmed']['demo'][:25], '|', m['caught_by'][:90])
